#!/usr/bin/env python3-vt
"""Development tool (NOT run by any check): produced golden/regions.json once at
the pinned commit by probing every documented enter/leave pair and reading the
PCF label shown while the region is open.  The result was reviewed line by line
against the event descriptions in doc/user/emulation/events.md and is committed;
checks never regenerate it."""
import sys, os, json, shutil, subprocess
sys.path.insert(0, os.path.dirname(os.path.dirname(os.path.abspath(__file__))))
from vlib import evdoc, trace as T, pv

EMU = sys.argv[1] if len(sys.argv) > 1 else '/repo/_build/src/emu/ovniemu'
models, decls = evdoc.load()
prs = evdoc.pairs(decls)
# pairs documented with other verbs
prs += [('V', 'VSh', 'VSf', 'the hungry state, waiting for work'),
        ('K', 'KCO', 'KCI', 'out of the CPU (context switch)')]
out = []
for (m, a, b, desc) in prs:
    name, ver = models[m]
    req = {"ovni": "1.1.0"}
    if m != 'O':
        req[name] = ver
    evs = [T.OHx(100, 0), T.plain(a, 110), T.plain(b, 120), T.plain('OHe', 130)]
    tr = {"streams": [{"loom": "n.0", "pid": 1, "tid": 1, "app": 1, "cpus": [[0, 0]], "require": req, "events": evs}]}
    d = '/dev/shm/gold'
    shutil.rmtree(d, ignore_errors=True)
    T.write_trace(tr, d)
    r = subprocess.run([EMU, d], capture_output=True, env=dict(os.environ, OVNI_CONFIG_DIR='/repo/cfg'))
    if r.returncode != 0:
        print("FAIL", m, a, b, desc, file=sys.stderr)
        continue
    prv = pv.Prv(d + '/thread.prv')
    pcf = pv.Pcf(d + '/thread.pcf')
    ch = [(row, t, typ, val) for (row, t, typ, val) in prv.records if t == 10]
    if len(ch) != 1:
        out.append({"model": m, "enter": a, "leave": b, "desc": desc, "type": None, "label": None})
        continue
    typ, val = ch[0][2], ch[0][3]
    out.append({"model": m, "enter": a, "leave": b, "desc": desc, "type": typ, "label": pcf.label(typ, val)})
print("[")
print(",\n".join(json.dumps(o, sort_keys=True) for o in out))
print("]")
