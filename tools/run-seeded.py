#!/usr/bin/env python3
"""Applies every seeded change under seeded/<id>/ to a scratch copy of /repo
(never to /repo itself), runs the quick tier of the property's check against it
(and of any extra checks listed in meta.json "also"), and writes
seeded/RESULTS.md.  usage: run-seeded.py [id-prefix ...] [--thorough] [--seed=N] [--out=FILE]"""
import sys, os, json, subprocess, shutil, time, glob
VERIF = os.path.dirname(os.path.dirname(os.path.abspath(__file__)))
args = [a for a in sys.argv[1:] if not a.startswith("--")]
tier = "thorough" if "--tier=thorough" in sys.argv or "--thorough" in sys.argv else "quick"
seed = next((a.split("=")[1] for a in sys.argv if a.startswith("--seed=")), os.environ.get("VERIF_SEED", "0"))
outf = next((a.split("=")[1] for a in sys.argv if a.startswith("--out=")), None)
rows = []
for d in sorted(glob.glob(os.path.join(VERIF, "seeded", "*", ""))):
    sid = os.path.basename(os.path.dirname(d))
    if args and not any(sid.startswith(a) for a in args):
        continue
    meta = json.load(open(os.path.join(d, "meta.json")))
    checks = [meta["property"]] + meta.get("also", [])
    dst = "/dev/shm/seeded.%d" % os.getpid()
    subprocess.run(["rsync", "-a", "--delete", "--exclude", "_build", "--exclude", ".git", "/repo/", dst + "/"], check=True)
    r = subprocess.run(["patch", "-p1", "-d", dst, "-i", os.path.join(d, "patch.diff")], capture_output=True, text=True)
    if r.returncode != 0:
        rows.append((sid, meta["property"], "PATCH DOES NOT APPLY", "", ""))
        shutil.rmtree(dst, ignore_errors=True)
        continue
    for c in checks:
        t0 = time.time()
        env = dict(os.environ, VERIF_SEED=seed, OVNI_REPO=dst, VERIF_EVIDENCE_DIR=os.path.join(dst, "_evidence"))
        p = subprocess.run([os.path.join(VERIF, "bin", "check"), c, "--tier", tier], env=env, capture_output=True, text=True)
        viol = [l for l in p.stdout.splitlines() if "violation in part" in l or "corpus case fails" in l]
        res = {0: "missed", 1: "CAUGHT"}.get(p.returncode, "error rc=%d" % p.returncode)
        rows.append((sid, c, res, "%.0fs" % (time.time() - t0), (viol[0][:200] if viol else "")))
        print(rows[-1], flush=True)
    shutil.rmtree(dst, ignore_errors=True)
out = ["# Seeded changes vs checks (%s tier, VERIF_SEED=%s)\n" % (tier, seed), "| seeded change | check | result | time | first report |", "|---|---|---|---|---|"]
for r in rows:
    out.append("| %s | %s | %s | %s | %s |" % tuple(str(x).replace("|", "/") for x in r))
own = [r for r in rows if r[1] == json.load(open(os.path.join(VERIF, "seeded", r[0], "meta.json")))["property"]] if rows and rows[0][2] != "PATCH DOES NOT APPLY" else []
out.append("\nown-property check: %d of %d seeded changes caught" % (sum(1 for r in own if r[2] == "CAUGHT"), len(own)))
path = outf or os.path.join(VERIF, "seeded", "RESULTS.md" if not args else "RESULTS-partial.md")
open(path, "w").write("\n".join(out) + "\n")
print("wrote", path)
