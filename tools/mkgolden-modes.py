#!/usr/bin/env python3
"""Development tool (NOT run by any check): produced golden/track_modes.json once, from the
Paraver configuration files that ovni ships under cfg/thread.  Each of them selects one event
type of thread.prv and its window name documents when the value is shown: "... of the RUNNING
thread", "... of the ACTIVE thread" or "... of the CURRENT thread" (always); names without any of
the three document nothing and are left out.  Only the model quantities (types
>= 7) are kept; the base rows 1..6 are computed by the reference model itself."""
import os, re, json, sys
out = {}
for root, dn, fn in os.walk("/repo/cfg/thread"):
    for f in sorted(fn):
        if not f.endswith(".cfg"):
            continue
        txt = open(os.path.join(root, f)).read()
        names = re.findall(r"^window_name (.*)$", txt, re.M)
        types = re.findall(r"^window_filter_module evt_type (\d+) ((?:\d+ ?)+)$", txt, re.M)
        if len(names) != 1 or len(types) != 1:
            continue
        n, ts = types[0]
        ts = [int(x) for x in ts.split()]
        if int(n) != 1 or len(ts) != 1 or ts[0] < 7:
            continue
        name = names[0]
        if "RUNNING thread" in name:
            mode = "RUN"
        elif "ACTIVE thread" in name:
            mode = "ACT"
        elif "CURRENT thread" in name:
            mode = "ANY"
        else:
            continue        # the name says nothing about it: not documented
        prev = out.get(str(ts[0]))
        if prev and prev["mode"] != mode:
            print("inconsistent", ts[0], prev, mode, file=sys.stderr)
        out[str(ts[0])] = {"mode": mode, "window_name": name, "cfg": os.path.relpath(os.path.join(root, f), "/repo")}
json.dump(dict(sorted(out.items(), key=lambda kv: int(kv[0]))), sys.stdout, indent=1)
