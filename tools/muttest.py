#!/usr/bin/env python3
"""Dev tool: apply one textual mutation to a scratch copy of /repo and run a
check against it.  usage: muttest.py CHECK FILE 'old' 'new' [tier]   (or a .diff)"""
import sys, os, subprocess, shutil
chk, f, old, new = sys.argv[1:5]
tier = sys.argv[5] if len(sys.argv) > 5 else "quick"
dst = "/dev/shm/mut.%d" % os.getpid()
subprocess.run(["rsync", "-a", "--delete", "--exclude", "_build", "--exclude", ".git", "/repo/", dst + "/"], check=True)
try:
    if f.endswith(".diff"):
        subprocess.run(["patch", "-p1", "-d", dst, "-i", os.path.abspath(f)], check=True, stdout=subprocess.DEVNULL)
    else:
        p = os.path.join(dst, f)
        s = open(p).read()
        if s.count(old) != 1:
            print("pattern count", s.count(old)); sys.exit(3)
        open(p, "w").write(s.replace(old, new))
    env = dict(os.environ, OVNI_REPO=dst, VERIF_EVIDENCE_DIR=os.path.join(dst, "_evidence"))
    r = subprocess.run(["/verif/bin/check", chk, "--tier", tier], env=env, capture_output=True, text=True)
    lines = r.stdout.strip().splitlines()
    print("\n".join(l[:400] for l in lines if "violation" in l.lower() or "evaluations" in l or "ERROR" in l or "FAILED" in l))
    print("exit", r.returncode)
    if r.returncode not in (0, 1):
        print(r.stdout[-3000:], r.stderr[-3000:])
finally:
    shutil.rmtree(dst, ignore_errors=True)
