#!/bin/bash
# usage: adopt-mutant.sh <agent worktree> <m1|m2> <seeded id> <property> "<needs>"
# Confirms an independently written change in a fresh scratch worktree (demo passes on the
# original tree, fails on the patched tree, the 88 tests pass with the patch), then copies it
# to /verif/seeded/<id>/ with a meta.json.  Never touches /repo's working tree.
set -u
SRC="$1/mutants/$2"; ID="$3"; PROP="$4"; NEEDS="$5"
WT=/tmp/adopt.$$
git -C /repo worktree add --detach "$WT" HEAD >/dev/null 2>&1 || exit 2
trap 'git -C /repo worktree remove --force "$WT" >/dev/null 2>&1; rm -f /tmp/adopt-orig.$$.log /tmp/adopt-mut.$$.log' EXIT
cd "$WT" || exit 2
build() { cmake -G Ninja -B build -DCMAKE_BUILD_TYPE=RelWithDebInfo -DUSE_MPI=OFF >/dev/null 2>&1 && cmake --build build -j16 >/dev/null 2>&1; }
build || { echo "ORIG BUILD FAILED"; exit 2; }
export OVNI_CONFIG_DIR="$WT/cfg"
bash "$SRC/run.sh" "$WT" >/tmp/adopt-orig.$$.log 2>&1; o=$?
git apply "$SRC/patch.diff" || { echo "PATCH DOES NOT APPLY"; exit 2; }
build || { echo "MUTANT BUILD FAILED"; exit 2; }
t=$(ctest --test-dir build -j8 --timeout 900 2>&1 | grep "tests passed")
bash "$SRC/run.sh" "$WT" >/tmp/adopt-mut.$$.log 2>&1; m=$?
echo "demo on original: exit $o ; demo on mutant: exit $m ; tests: $t"
if [ "$o" = 0 ] && [ "$m" != 0 ] && echo "$t" | grep -q "100% tests passed"; then
	D=/verif/seeded/$ID; mkdir -p "$D"
	cp -r "$SRC"/. "$D"/
	python3 - "$D" "$PROP" "$NEEDS" "$o" "$m" "$t" <<'PY'
import sys, json
d, prop, needs, o, m, t = sys.argv[1:]
json.dump({"property": prop, "breaks": open(d + "/README.md").read().split("\n")[0][:200],
           "needs_to_manifest": needs,
           "confirmed": {"what_was_run": "fresh scratch worktree of /repo HEAD: cmake+ninja build, run.sh on the original tree (exit %s), git apply patch.diff, rebuild, ctest -j8 (%s), run.sh on the patched tree (exit %s)" % (o, t.strip(), m)},
           "origin": "written by an independent sub-agent that saw only the property text"}, open(d + "/meta.json", "w"), indent=1)
PY
	echo "ADOPTED $ID"
else
	echo "NOT CONFIRMED"; tail -5 /tmp/adopt-orig.$$.log; tail -5 /tmp/adopt-mut.$$.log
fi
