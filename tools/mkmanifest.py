#!/usr/bin/env python3-vt
"""Regenerates MANIFEST.json from the metadata of the check modules that exist
under checks/.  Properties without a module are listed under not_applicable
with the reason recorded in PENDING below."""
import sys, os, json, importlib, subprocess
VERIF = os.path.dirname(os.path.dirname(os.path.abspath(__file__)))
sys.path.insert(0, VERIF)

PENDING = {}   # id -> reason (for properties not claimed)

# id -> (technique, assurance text)
TEXT = {
 "C01": ("property-based testing: generated libovni programs, round trip against the emit log (independent codec), ASan, short-write shim, boundary-targeted generation + exhaustive boundary sweep",
         "Every generated program's stream must decode to exactly the emitted events. Exploration is the right level: the property quantifies over programs and buffer-fill positions; the generator targets every residue of the flush thresholds and the thorough tier sweeps them exhaustively, but absence of failures is not a proof."),
 "C02": ("property-based testing: model-guided conformant programs run through libovni, independent stream validator + metadata check + real ovniemu; exhaustive jumbo-size window sweep; re-runs into existing traces; programs with more than 1024 threads under the default open-files limit",
         "Conformant programs (legal under the reference model) must leave spec-valid streams that ovniemu -l accepts. Exploration with an exhaustive slice over the near-capacity jumbo sizes, which is where the one known defect lived."),
 "C03": ("model-based testing of heap.h in process (exhaustive small sequences + random), metamorphic/validity oracle on ovnidump/ovnitop merges, differential oracle on PRV times with clock offsets",
         "Any valid merge is accepted (tie order unspecified), so the oracle is a validity predicate plus invariance under directory creation order. Exhaustive for heap op sequences up to the stated length; exploration beyond."),
 "C04": ("bounded-exhaustive enumeration + model-guided random walks against a reference thread FSM; verdict and timeline comparison",
         "Accept/reject must equal the documented state machine for every enumerated history and the state/TID/CPU rows must match after every event. Exhaustive up to the stated lengths (one thread, two threads, two threads on one CPU), exploration beyond."),
 "C05": ("stateful property-based testing (Hypothesis) with a reference occupancy model; cross-check of cpu.prv recomputed from thread.prv",
         "Histories biased towards contention; rejects iff a physical CPU would hold two running threads; CPU rows compared at every event time. Exploration: the space of interleavings is unbounded."),
 "C06": ("stateful property-based testing with full reference evaluation of every (row,type) of thread.prv and cpu.prv; tracking mode taken from the window names of the Paraver views shipped under cfg/thread (golden/track_modes.json) where they state it, otherwise from the emulator's own .pcf declaration",
         "Every published quantity of every model is compared with the reference after every event time, including hidden updates and migrations. Exploration."),
 "C07": ("model-based bounded-exhaustive BFS of task.c/body.c in process + stateful property-based end-to-end histories for nOS-V and Nanos6",
         "The task module agrees with the reference on every operation from every reachable state to the stated depth (millions of transitions); end to end the verdict and the task rows match. Exhaustive slice + exploration."),
 "C08": ("exhaustive enumeration over all documented enter/leave pairs (depth 1-2), depth sweep to the stack limit, random histories with mismatches and state gating; label-based oracle from golden/regions.json",
         "Each of the 150 documented pairs shows the documented label while open and nests like a stack; mismatches, wrong thread state and (lint) open regions are refused. Exhaustive over pairs, exploration over histories."),
 "C09": ("fault enumeration: one run per crash point (SIGKILL injected by strace at every file system call of the runtime), progress witness from the syscall log and the driver's log; OVNI_TMPDIR beside, on another file system than, or below the trace directory; kill-less runs (file size limit before thread_free, ovni_proc_fini before the last flush, concurrent relocation)",
         "For each generated program every syscall-boundary crash point is executed; the trace a user would hand to ovniemu is never accepted, nor marked finished, with flushed bytes missing. Fault enumeration is exact for the generated programs; programs themselves are sampled."),
 "C10": ("fault enumeration: one run per single failing system call (errno injection by strace) plus file size limits (EFBIG after a partial write) and real short writes; outcome oracle (abort with diagnostic, or complete valid trace; data never destroyed)",
         "Every mkdir/openat/write/close/unlink/rmdir/getdents64/read of the runtime fails once per run; the observable outcome must be an abort with a diagnostic or a complete trace. Exact over the call sites of the generated programs."),
 "C11": ("schedule sampling with ThreadSanitizer on a free-running multi-threaded driver; per-thread round-trip oracle; barrier-released init/fini races",
         "TSan generalises data races over schedules of the executed programs; logical races (exactly-one-winner) are sampled with thousands of barrier-released trials. Exploration: schedules are owned by the OS, not enumerated."),
 "C12": ("mutation of reference-model-valid traces: exactly one structural corruption per case; oracle = non-zero exit, no signal, no 'finished ok' (ASan build)",
         "Each corruption class named by the property is applied at generated positions of generated valid multi-model traces. Exploration (positions and bases are sampled)."),
 "C13": ("property-based testing over accepted traces of all models with independent .prv/.pcf/.row parsers and the reference layout",
         "Every output file of every accepted generated trace (incl. -b breakdown traces) is parsed and checked for the stated well-formedness; duration and row order come from the input, not from the output. Exploration."),
 "C14": ("exhaustive enumeration of small version domains in process, in the runtime and in the emulator (all 128 subsets of required models)",
         "The compatibility relation is checked on all 4096 (want,have) pairs; runtime and emulator gates on versions around their own; model enabling on every subset. Exhaustive over the stated domains."),
 "C15": ("metamorphic testing: two distributions of the same union metadata must give byte-identical outputs equal to the reference layout; single contradictions must be refused (ASan)",
         "Generated bases with rank/loom/CPU variety, two random distributions each, plus every listed contradiction class. Exploration."),
 "C16": ("property-based testing with a stable-sort reference; look-back window computed independently; idempotence, check mode and emulator acceptance",
         "Whenever the documented precondition holds the result must be the stable sort with unchanged bytes; beyond the window only 'sorted' or 'failed with a message' are accepted. Exploration."),
 "C17": ("end-to-end property-based testing through the real mark API (rtdrv), round trip of streams and metadata, reference timeline comparison, PCF label union; single conflicts/misuses must be refused",
         "Programs over 1-4 threads in one or two processes (of one or two looms); values compared at the library's own clocks after the streams were matched against the calls. Exploration.  One open known finding (C17-label-value-beyond-int) is excluded by construction and reported as KNOWN-FINDING."),
 "C18": ("exhaustive enumeration of all 8 x 95 x 95 codes (unlisted ones with and without well-formed sibling payloads), recipe-based acceptance of every listed event, independent formatter for ovnidump",
         "Declared, decodable and handled event sets coincide for every printable code; decoding checked for generated argument values incl. extremes. Exhaustive over codes, exploration over argument values."),
 "C19": ("structure-aware mutation fuzzing of valid traces at process level (ASan/UBSan subset + exact-size heap buffer hook) on four tools (incl. ovniemu -d, ovnisort -n 0/1), an enumerated part (every listed event code x payload shape x 7 tool invocations), plus coverage-guided libFuzzer on an in-process decoder target with in-target oracle",
         "Exit status, diagnostics, signals, sanitizer reports and CPU time are checked on every tool run. Exploration: fuzzing never establishes absence."),
 "C20": ("model-based bounded-exhaustive testing of sort.c in process + stateful property-based end-to-end -b runs compared with per-CPU values recomputed by the reference model",
         "Sort outputs equal the sorted inputs after every propagation (exhaustive small sequences); breakdown rows equal the sorted per-CPU values at every event time. One open known finding (C20-bare-task-pause) is excluded by construction and reported as KNOWN-FINDING."),
}

props = [json.loads(l) for l in open(os.path.join(VERIF, "properties.jsonl"))]
checks, na = [], []
for p in props:
    pid = p["id"]
    name = pid.lower()
    if not os.path.exists(os.path.join(VERIF, "checks", name + ".py")):
        na.append({"property_id": pid, "reason": PENDING.get(pid, "check not built yet in this round (planned in DESIGN.md section 4)")})
        continue
    m = importlib.import_module("checks." + name)
    c = {
        "property_id": pid,
        "quick_cmd": "bin/check %s --tier quick" % pid,
        "thorough_cmd": "bin/check %s --tier thorough" % pid,
        "evidence_file": "evidence/%s.json" % pid,
        "replay_cmd_template": "bin/check %s --replay {path}" % pid,
        "engine": "vlib-runner",
        "level_claimed": {
            "category": m.LEVEL,
            "text": TEXT[pid][1] + "  Domain and oracle in detail: " + m.RULE,
            "design_ref": "DESIGN.md section 4, %s" % pid,
        },
        "level_note": getattr(m, "LEVEL_NOTE", "; ".join(getattr(m, "ASSUMPTIONS", [])) or "see DESIGN.md"),
        "technique": TEXT[pid][0],
    }
    checks.append(c)

try:
    hooks = subprocess.run(["git", "-C", "/repo", "log", "--format=%H %s", "--grep=^hook:"],
                           capture_output=True, text=True).stdout.strip().splitlines()
except Exception:
    hooks = []

man = {
    "version": 1,
    "setup_cmd": "bin/setup",
    "hooks": {
        "guard": "OVNI_VERIF",
        "enable": "checks build /repo with cmake -DCMAKE_C_FLAGS=-DOVNI_VERIF (vlib/build.py); the hook is active only when the environment also has OVNI_VERIF_HEAPBUF=1",
        "baseline_off_cmd": "bin/baseline-off",
        "source_commits": [h.split()[0] for h in hooks],
        "add_only": True,
    },
    "engines": [
        {"name": "vlib-runner", "path": "vlib/runner.py",
         "serves_properties": [c["property_id"] for c in checks],
         "kind_free_text": "Hypothesis 6.168 (seeded, database=None) + deterministic bounded-exhaustive enumerators, sharded over 16 worker processes; executes the real tools built from /repo's working tree; Python reference model and independent codecs as oracles; failures are shrunk, written to replays/ and re-executed 3x without Hypothesis before VIOLATION is printed"},
    ],
    "checks": checks,
    "not_applicable": na,
    "notes": "All checks rebuild /repo's current working tree at start (cmake+ninja, ~4 s per variant) with -DOVNI_VERIF. VERIF_SEED selects the Hypothesis seeds; VERIF_JOBS the number of workers. known_findings.json lists open and fixed findings.",
}
with open(os.path.join(VERIF, "MANIFEST.json"), "w") as f:
    json.dump(man, f, indent=1)
print("checks:", [c["property_id"] for c in checks])
print("not_applicable:", [n["property_id"] for n in na])
