#!/usr/bin/env python3-vt
"""Regenerates MANIFEST.json from the metadata of the check modules that exist
under checks/.  Properties without a module are listed under not_applicable
with the reason recorded in PENDING below."""
import sys, os, json, importlib, subprocess
VERIF = os.path.dirname(os.path.dirname(os.path.abspath(__file__)))
sys.path.insert(0, VERIF)

PENDING = {}   # id -> reason (for properties not claimed)

props = [json.loads(l) for l in open(os.path.join(VERIF, "properties.jsonl"))]
checks, na = [], []
for p in props:
    pid = p["id"]
    name = pid.lower()
    if not os.path.exists(os.path.join(VERIF, "checks", name + ".py")):
        na.append({"property_id": pid, "reason": PENDING.get(pid, "check not built yet in this round (planned in DESIGN.md section 4)")})
        continue
    m = importlib.import_module("checks." + name)
    c = {
        "property_id": pid,
        "quick_cmd": "bin/check %s --tier quick" % pid,
        "thorough_cmd": "bin/check %s --tier thorough" % pid,
        "evidence_file": "evidence/%s.json" % pid,
        "replay_cmd_template": "bin/check %s --replay {path}" % pid,
        "engine": "vlib-runner",
        "level_claimed": {
            "category": m.LEVEL,
            "text": getattr(m, "LEVEL_TEXT", m.RULE),
            "design_ref": "DESIGN.md section 4, %s" % pid,
        },
        "level_note": getattr(m, "LEVEL_NOTE", "; ".join(getattr(m, "ASSUMPTIONS", [])) or "see DESIGN.md"),
        "technique": getattr(m, "TECHNIQUE", "property-based testing (Hypothesis) against a reference model"),
    }
    checks.append(c)

try:
    hooks = subprocess.run(["git", "-C", "/repo", "log", "--format=%H %s", "--grep=^hook:"],
                           capture_output=True, text=True).stdout.strip().splitlines()
except Exception:
    hooks = []

man = {
    "version": 1,
    "setup_cmd": "bin/setup",
    "hooks": {
        "guard": "OVNI_VERIF",
        "enable": "checks build /repo with cmake -DCMAKE_C_FLAGS=-DOVNI_VERIF (vlib/build.py); the hook is active only when the environment also has OVNI_VERIF_HEAPBUF=1",
        "baseline_off_cmd": "bin/baseline-off",
        "source_commits": [h.split()[0] for h in hooks],
        "add_only": True,
    },
    "engines": [
        {"name": "vlib-runner", "path": "vlib/runner.py",
         "serves_properties": [c["property_id"] for c in checks],
         "kind_free_text": "Hypothesis 6.168 (seeded, database=None) + deterministic bounded-exhaustive enumerators, sharded over 16 worker processes; executes the real tools built from /repo's working tree; Python reference model and independent codecs as oracles; failures are shrunk, written to replays/ and re-executed 3x without Hypothesis before VIOLATION is printed"},
    ],
    "checks": checks,
    "not_applicable": na,
    "notes": "All checks rebuild /repo's current working tree at start (cmake+ninja, ~4 s per variant) with -DOVNI_VERIF. VERIF_SEED selects the Hypothesis seeds; VERIF_JOBS the number of workers. known_findings.json lists open and fixed findings.",
}
with open(os.path.join(VERIF, "MANIFEST.json"), "w") as f:
    json.dump(man, f, indent=1)
print("checks:", [c["property_id"] for c in checks])
print("not_applicable:", [n["property_id"] for n in na])
