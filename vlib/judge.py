"""Shared verdict logic: reference model vs. emulator."""
import os
from . import trace as T, tools, refmodel as R, compare, pv
from .runner import Violation


def strip(tr):
    """Remove generator-private keys (leading underscore) for file writing."""
    return {k: v for k, v in tr.items() if not k.startswith("_")}


def model_verdict(tr, lint=False, enable_all=False):
    """-> (verdict, info, model|None); verdict in accept/reject/unclaimed"""
    try:
        m = R.Model(tr, lint=lint, enable_all=enable_all)
    except R.Reject as r:
        if r.stage == "unclaimed":
            return "unclaimed", {"why": r.why}, None
        return "reject", {"stage": "load", "why": r.why}, None
    v, info = m.run()
    if v == "reject" and info.get("stage") == "event":
        # distinguish inputs outside the asserted domain
        pass
    return v, info, m


def model_verdict_u(tr, lint=False, enable_all=False):
    """As model_verdict, but an event the model classifies as 'unclaimed'
    yields verdict 'unclaimed'."""
    try:
        m = R.Model(tr, lint=lint, enable_all=enable_all)
    except R.Reject as r:
        return ("unclaimed" if r.stage == "unclaimed" else "reject"), {"stage": "load", "why": r.why}, None
    for i, s in enumerate(tr["streams"]):
        last = None
        for e in s.get("events", []):
            if last is not None and e[1] < last:
                return "reject", {"stage": "stream", "why": "clock goes backwards"}, m
            last = e[1]
    n = 0
    for (ct, _p, _k, sidx, e) in m.merged_events():
        try:
            m.apply(sidx, e, ct)
        except R.Reject as r:
            if r.stage == "unclaimed":
                return "unclaimed", {"index": n, "mcv": e[0], "why": r.why}, m
            return "reject", {"stage": "event", "index": n, "mcv": e[0], "why": r.why}, m
        n += 1
    try:
        m.finish()
    except R.Reject as r:
        return "reject", {"stage": "finish", "why": r.why}, m
    return "accept", None, m


def emulate(ctx, tr, flags=("-l",), variant=None, keep=False, heapbuf=False):
    d = ctx.newdir()
    T.write_trace(strip(tr), d)
    r = tools.emu(ctx.b(variant), d, flags, heapbuf=heapbuf)
    return d, r


def judge(ctx, tr, flags=("-l",), variant=None, only_types=None, skip_types=(), cpu=True,
          wellformed=False, extra_check=None):
    """Full oracle: verdict equality, then row-by-row comparison for accepted
    traces.  Returns info dict (verdict etc.) or raises Violation."""
    lint = "-l" in flags
    ea = "-a" in flags
    verdict, info, model = model_verdict_u(tr, lint=lint, enable_all=ea)
    if verdict == "unclaimed":
        return {"discard": True, "cls": ["unclaimed"], "verdict": "unclaimed"}
    d, r = emulate(ctx, tr, flags, variant)
    try:
        if r.kind not in ("ok", "rejected"):
            raise Violation("emulator did not exit cleanly: %s" % r.brief())
        if verdict == "accept":
            if not r.ok:
                raise Violation("model accepts, emulator rejects: %s" % r.brief())
            if not r.finished_ok():
                raise Violation("exit 0 without 'emulation finished ok'")
            probs = compare.compare(model, d, only_types=only_types, skip_types=skip_types, cpu=cpu)
            if probs:
                raise Violation("timeline mismatch: " + "; ".join(probs[:3]))
            if wellformed:
                exp_dur = model.snap[-1][0] if model.snap else 0
                names = R.row_names(model.looms, model.threads, model.cpus)
                wp = pv.check_wellformed(d, expect_duration=exp_dur, expect_rows=names)
                if wp:
                    raise Violation("malformed Paraver output: " + "; ".join(wp[:3]))
            if extra_check:
                extra_check(model, d, r)
        else:
            if r.ok:
                raise Violation("model rejects (%s) but emulator exits 0" % (info,))
            if r.finished_ok():
                raise Violation("rejected trace printed 'emulation finished ok'")
    finally:
        ctx.rmdir(d)
    return {"verdict": verdict, "model": model, "info": info}
