"""Crash-point and fault enumeration with strace (ptrace syscall tampering).

Observed in this sandbox (strace 6.1): `when=N` counts per tracee (thread) and
per system call name, and a signal injected with `signal=SIGKILL` kills the
process at the entry of that call (the call is not executed)."""
import os, re, subprocess, resource, signal
from . import tools

SYSCALLS = ["mkdir", "openat", "write", "close", "unlink", "rmdir", "getdents64", "read",
            # not used by the runtime as it stands; enumerated as soon as a tree starts using them
            "pwrite64", "writev", "fallocate", "ftruncate", "rename", "renameat", "renameat2", "sendfile",
            "copy_file_range", "fsync", "fdatasync", "unlinkat", "mkdirat", "link", "linkat"]
LOGSIZE = 256 * 1024
_LINE = re.compile(r"^(\d+)\s+(\w+)\((.*)\)\s+=\s+(-?\d+|\?)(.*)$")
_RESUMED = re.compile(r"^(\d+)\s+<\.\.\. (\w+) resumed>(.*)\)\s+=\s+(-?\d+|\?)(.*)$")
_UNFINISHED = re.compile(r"^(\d+)\s+(\w+)\((.*) <unfinished \.\.\.>$")


def compile_static_driver(build):
    """Static driver with the shim linked in through --wrap (LD_PRELOAD does not
    work on static executables): SHIM_SHORT / SHIM_READDIR act on libovni's
    own write() and readdir() calls."""
    return build.compile(["rtdrv.c", "shim.c"], "rtdrv-static", libs="rt",
                         extra="-static -DSHIM_WRAP -Wl,--wrap=write,--wrap=readdir,--wrap=closedir")


class StraceRun:
    def __init__(self):
        self.rc = None
        self.sig = None
        self.err = b""
        self.calls = []      # (pid, name, args, ret(int|None), rest)
        self.logs = {}
        self.killed = False


def parse_log(path):
    calls = []
    pend = {}
    try:
        lines = open(path, "r", errors="replace").read().split("\n")
    except OSError:
        return calls
    for l in lines:
        m = _LINE.match(l)
        if m:
            ret = None if m.group(4) == "?" else int(m.group(4))
            calls.append((int(m.group(1)), m.group(2), m.group(3), ret, m.group(5)))
            continue
        m = _UNFINISHED.match(l)
        if m:
            pend[int(m.group(1))] = (m.group(2), m.group(3))
            continue
        m = _RESUMED.match(l)
        if m:
            pid = int(m.group(1))
            name, args = pend.pop(pid, (m.group(2), ""))
            ret = None if m.group(4) == "?" else int(m.group(4))
            calls.append((pid, name, args + m.group(3), ret, m.group(5)))
    return calls


def run(drv, script_text, workdir, tmpdir_mode=False, inject=None, env=None, nthreads=4, wall_s=60):
    """Runs the static driver under strace.  inject: None or an strace -e inject= expression."""
    os.makedirs(workdir, exist_ok=True)
    tracedir = os.path.join(workdir, "trace")
    e = dict(os.environ)
    e["OVNI_TRACEDIR"] = tracedir
    e["RTDRV_NOCATCH"] = "1"
    e.pop("OVNI_TMPDIR", None)
    tmpdir = None
    if tmpdir_mode:
        # True: beside the trace directory; a path: there (e.g. on another file system)
        tmpdir = tmpdir_mode if isinstance(tmpdir_mode, str) else os.path.join(workdir, "tmp")
        e["OVNI_TMPDIR"] = tmpdir
    if env:
        e.update(env)
    # inherited, pre-sized log files (driver mmaps them: no syscalls while tracing)
    fds = []
    logpaths = []
    for i in range(nthreads + 1):
        p = os.path.join(workdir, "log%d" % i)
        with open(p, "wb") as f:
            f.truncate(LOGSIZE)
        fd = os.open(p, os.O_RDWR)
        fds.append(fd)
        logpaths.append(p)
    base = 100
    slog = os.path.join(workdir, "strace.log")
    # --seccomp-bpf makes strace much cheaper, but signal injection at syscall
    # entry does not work with it (observed); error injection does.
    fast = ["--seccomp-bpf"] if (inject is None or ":error=" in inject) else []
    cmd = ["strace", "-f"] + fast + ["-o", slog, "-e", "trace=" + ",".join(SYSCALLS), "-e", "signal=none"]
    if inject:
        cmd += ["-e", "inject=" + inject]
    cmd += [drv, script_text, "fd:%d" % base]

    def pre():
        for i, fd in enumerate(fds):
            os.dup2(fd, base + i)
        resource.setrlimit(resource.RLIMIT_CORE, (0, 0))
        os.setsid()
    r = StraceRun()
    try:
        p = subprocess.Popen(cmd, env=e, cwd=workdir, stdin=subprocess.DEVNULL, stdout=subprocess.PIPE,
                             stderr=subprocess.PIPE, preexec_fn=pre, close_fds=False)
        try:
            out, err = p.communicate(timeout=wall_s)
        except subprocess.TimeoutExpired:
            os.killpg(p.pid, signal.SIGKILL)
            out, err = p.communicate()
            r.rc = "timeout"
        r.err = err
        if r.rc is None:
            r.rc = p.returncode
    finally:
        for fd in fds:
            os.close(fd)
    r.calls = parse_log(slog)
    try:
        txt = open(slog, errors="replace").read()
    except OSError:
        txt = ""
    r.killed = "killed by SIGKILL" in txt or r.rc in (-9, 137)
    for i, pth in enumerate(logpaths):
        who = "P" if i == 0 else "T%d" % (i - 1)
        d = {}
        raw = open(pth, "rb").read().rstrip(b"\0").decode("latin-1")
        for l in raw.split("\n"):
            f = l.split()
            if len(f) >= 2 and f[0].isdigit():
                if f[1] == "interval":
                    continue
                d[int(f[0])] = (f[1], f[2:])
        r.logs[who] = d
    r.tracedir, r.tmpdir = tracedir, tmpdir
    return r


def counts(calls):
    """{syscall: max over threads of the number of calls}"""
    per = {}
    for (pid, name, args, ret, rest) in calls:
        per.setdefault(name, {}).setdefault(pid, 0)
        per[name][pid] += 1
    return {n: max(d.values()) for n, d in per.items()}


def flushed_bytes(calls, primary_root):
    """{stream.obs path under primary_root: bytes successfully written through the fd the runtime opened}"""
    fdmap = {}
    out = {}
    for (pid, name, args, ret, rest) in calls:
        if name == "openat" and ret is not None and ret >= 0:
            m = re.search(r'"([^"]*)"', args)
            if m:
                fdmap[ret] = (m.group(1), "O_TRUNC" in args, args)
        elif name == "close" and ret == 0:
            try:
                fdmap.pop(int(args.split(",")[0]), None)
            except ValueError:
                pass
        elif name == "write" and ret is not None and ret > 0:
            try:
                fd = int(args.split(",")[0])
            except ValueError:
                continue
            ent = fdmap.get(fd)
            # the primary stream is the one under primary_root (relocation copies go to the final directory)
            if ent and ent[0].endswith("stream.obs") and "O_WRONLY" in ent[2] and os.path.normpath(ent[0]).startswith(os.path.normpath(primary_root)):
                out[os.path.normpath(ent[0])] = out.get(os.path.normpath(ent[0]), 0) + ret
    return out


def select_k(n, limit=48):
    """All of 1..n when n is small; otherwise the first and last dozen and an even spread in
    between (a multi-MiB stream is copied in hundreds of identical 4 KiB read/write calls)."""
    if n <= limit:
        return list(range(1, n + 1))
    keep = set(range(1, 13)) | set(range(n - 11, n + 1))
    step = max(1, (n - 24) // (limit - 24))
    keep |= set(range(13, n - 11, step))
    return sorted(keep)
