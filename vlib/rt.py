"""Driving libovni through csrc/rtdrv.c: script building, execution, logs."""
import os, subprocess, struct
import numpy as np
from . import obs, tools

MAX_EV_BUF = 2 * 1024 * 1024


def hx(s):
    if isinstance(s, str):
        s = s.encode("latin-1")
    return s.hex() if s else "-"


def jumbo_data(size, seed):
    i = np.arange(size, dtype=np.uint64)
    return ((np.uint64(seed) + i * np.uint64(167) + (i >> np.uint64(8)) * np.uint64(31)) & np.uint64(0xff)).astype(np.uint8).tobytes()


class Script:
    def __init__(self, mode="turn"):
        self.lines = ["MODE " + mode]

    def add(self, who, *a):
        self.lines.append(" ".join([who] + [str(x) for x in a]))
        return len(self.lines)        # 1-based line number

    def text(self):
        return "\n".join(self.lines) + "\n"


def compile_driver(build, out="rtdrv", extra=""):
    return build.compile("rtdrv.c", out, libs="rt", extra=extra)


def compile_shim(build):
    out = os.path.join(build.root, "shim.so")
    src = os.path.join(os.path.dirname(os.path.dirname(os.path.abspath(__file__))), "csrc", "shim.c")
    r = subprocess.run(["gcc", "-O1", "-g", "-shared", "-fPIC", "-o", out, src, "-ldl"], capture_output=True, text=True)
    if r.returncode != 0:
        raise RuntimeError("shim build failed: " + r.stderr)
    return out


def shim_env(shim, short=None, readdir=None):
    e = {"LD_PRELOAD": shim, "ASAN_OPTIONS": tools.ASAN_OPTS + ":verify_asan_link_order=0"}
    if short:
        e["SHIM_SHORT"] = short
    if readdir is not None:
        e["SHIM_READDIR"] = str(readdir)
    return e


class RunResult:
    def __init__(self):
        self.res = None
        self.logs = {}       # "P"/"T<n>" -> {lineno: (status, [fields])}
        self.intervals = {}
        self.tracedir = None
        self.tmpdir = None


def run_script(drv, lines, workdir, tmpdir_mode=False, env=None, wrapper=None, cpu_s=60, wall_s=120, tracedir=None):
    """lines: list of script lines (without trailing newline)."""
    os.makedirs(workdir, exist_ok=True)
    sp = os.path.join(workdir, "script.txt")
    with open(sp, "w") as f:
        f.write("\n".join(lines) + "\n")
    logdir = os.path.join(workdir, "logs")
    os.makedirs(logdir, exist_ok=True)
    tracedir = tracedir or os.path.join(workdir, "trace")
    e = {"OVNI_TRACEDIR": tracedir}
    rr = RunResult()
    rr.tracedir = tracedir
    if tmpdir_mode == "same":
        # OVNI_TMPDIR names the final directory itself
        rr.tmpdir = tracedir
        e["OVNI_TMPDIR"] = tracedir
    elif tmpdir_mode == "alias":
        # OVNI_TMPDIR is another name (a symbolic link) of the final directory
        os.makedirs(tracedir, exist_ok=True)
        rr.tmpdir = os.path.join(workdir, "tmp-alias")
        if not os.path.islink(rr.tmpdir):
            os.symlink(tracedir, rr.tmpdir)
        e["OVNI_TMPDIR"] = rr.tmpdir
    elif tmpdir_mode:
        rr.tmpdir = os.path.join(workdir, "tmp")
        os.makedirs(rr.tmpdir, exist_ok=True)
        e["OVNI_TMPDIR"] = rr.tmpdir
    if env:
        e.update(env)
    cmd = [drv, sp, logdir]
    if wrapper:
        cmd = list(wrapper) + cmd
    rr.res = tools.run(cmd, cwd=workdir, env=e, cpu_s=cpu_s, wall_s=wall_s, fsize_mb=4096)
    for fn in os.listdir(logdir):
        who = fn[:-4]
        d = {}
        with open(os.path.join(logdir, fn)) as f:
            for l in f:
                p = l.split()
                if len(p) < 2:
                    continue
                if p[1] == "interval":
                    rr.intervals[who] = (int(p[2]), int(p[3]))
                    continue
                d[int(p[0])] = (p[1], p[2:])
        rr.logs[who] = d
    return rr


def parse_line(l):
    p = l.split()
    return p[0], p[1], p[2:]


def expected_stream(lines, rr, who):
    """Events thread `who` handed to the library, in call order, from the
    script and the driver's log: list of dicts
      {"mcv","clock","payload","jumbo"}           (explicit clock known)
      {"mcv","bracket":(c0,c1),"payload","jumbo"}   (library-stamped: marks)
    Ops the library refused are skipped."""
    out = []
    log = rr.logs.get(who, {})
    for i, l in enumerate(lines, 1):
        if l.startswith("MODE") or not l.strip():
            continue
        w, cmd, a = parse_line(l)
        if w != who:
            continue
        st = log.get(i)
        if st is None or st[0] != "ok":
            continue
        if cmd == "ev":
            mcv = bytes.fromhex(a[0]).decode("latin-1")
            clock = int(st[1][0])
            payload = b"".join(bytes.fromhex(x) for x in a[2:] if x != "-")
            out.append({"mcv": mcv, "clock": clock, "payload": payload, "jumbo": False})
        elif cmd == "jumbo":
            mcv = bytes.fromhex(a[0]).decode("latin-1")
            clock = int(st[1][0])
            out.append({"mcv": mcv, "clock": clock, "payload": jumbo_data(int(a[2]), int(a[3])), "jumbo": True})
        elif cmd == "jumbolit":
            mcv = bytes.fromhex(a[0]).decode("latin-1")
            data = bytes.fromhex(a[2]) if a[2] != "-" else b""
            out.append({"mcv": mcv, "clock": int(st[1][0]), "payload": data, "jumbo": True})
        elif cmd in ("mset", "mpush", "mpop"):
            mcv = {"mset": "OM=", "mpush": "OM[", "mpop": "OM]"}[cmd]
            payload = struct.pack("<qi", int(a[1]), int(a[0]))
            out.append({"mcv": mcv, "bracket": (int(st[1][0]), int(st[1][1])), "payload": payload, "jumbo": False})
    return out


def match_stream(expected, decoded, allow_markers=True):
    """Compares the decoded stream (list of obs.Ev) with the expected emit log.
    Flush markers (payload-less OF[ / OF]) inserted by the library are skipped.
    Returns None or a problem string."""
    got = [e for e in decoded if not (allow_markers and e.mcv in ("OF[", "OF]") and len(e.payload) == 0 and not e.jumbo)]
    if len(got) != len(expected):
        return "stream holds %d user events, %d were emitted" % (len(got), len(expected))
    for i, (g, x) in enumerate(zip(got, expected)):
        if g.mcv != x["mcv"] or g.jumbo != x["jumbo"] or bytes(g.payload) != x["payload"]:
            return "event %d differs: stream has %r, emitted mcv=%r jumbo=%s payload=%s..(%d bytes)" % (
                i, g, x["mcv"], x["jumbo"], x["payload"][:12].hex(), len(x["payload"]))
        if "clock" in x:
            if g.clock != x["clock"]:
                return "event %d clock %d != emitted %d" % (i, g.clock, x["clock"])
        else:
            c0, c1 = x["bracket"]
            if not (c0 <= g.clock <= c1):
                return "event %d clock %d outside call bracket [%d,%d]" % (i, g.clock, c0, c1)
    return None
