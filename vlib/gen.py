"""Model-guided generators (Hypothesis) of trace descriptions.

The generator proposes events; the reference model (transactional apply) says
whether each is legal, illegal or outside the asserted domain ("unclaimed").
All randomness comes from Hypothesis draws, so cases shrink and replay.
"""
import struct
from hypothesis import strategies as st
from . import trace as T, refmodel as R

ALL_MODELS = ["V", "6", "D", "M", "T", "P", "K"]


def versions():
    return R.Model.versions()


def require_for(models):
    v = versions()
    req = {"ovni": "%d.%d.%d" % v["ovni"]}
    for m in models:
        n = R.MODEL_NAMES[m]
        req[n] = "%d.%d.%d" % v[n]
    return req


@st.composite
def systems(draw, max_looms=2, max_procs=2, max_threads=3, max_cpus=3, models=None,
            ranks=False, marks=0, min_threads=1, breakdown=False):
    """Draws the static part of a trace: looms, processes, threads, CPUs,
    required models, optional ranks and mark definitions."""
    nlooms = draw(st.integers(1, max_looms))
    if models is None:
        models = draw(st.lists(st.sampled_from(ALL_MODELS), unique=True, max_size=3))
    req = require_for(models)
    streams = []
    pid = 0
    # Numbering: TIDs are unique per process and PIDs per loom only.  One system in three
    # restarts the TIDs in every process and the PIDs in every loom (the same numbers then
    # name different threads); the first TID varies so that TIDs of different decimal
    # width (9/10, 99/100, 99999/100000) meet in one process.
    prefix_names = draw(st.integers(0, 3)) == 0
    restart = draw(st.integers(0, 2)) == 0
    tid0 = draw(st.sampled_from([100, 100, 7, 97, 998, 99997]))
    tid = tid0
    use_rank = ranks and draw(st.booleans())
    rank = 0
    nranks = None
    looms = []
    for li in range(nlooms):
        host = "node%d" % li
        lname = "%s.%d" % (host, draw(st.integers(0, 3)))
        if prefix_names:
            # looms of one host whose names are prefixes of each other (host.1, host.10, host.100)
            lname = "node.1" + "0" * [1, 0, 2][li % 3]
        ncpus = draw(st.integers(1, max_cpus))
        stride = draw(st.sampled_from([1, 1, 2, 5]))
        base = draw(st.sampled_from([0, 0, 3]))
        phys = [base + i * stride for i in range(ncpus)]
        if ncpus > 1 and draw(st.integers(0, 2)) == 0:
            # logical index order and physical id order differ (the rows follow the physical ids)
            phys = list(draw(st.permutations(phys)))
        cpus = [[i, phys[i]] for i in range(ncpus)]
        nprocs = draw(st.integers(1, max_procs))
        first = True
        if restart:
            pid = 0
        for pi in range(nprocs):
            pid += 1 + draw(st.integers(0, 3))
            if restart:
                tid = tid0
            nth = draw(st.integers(min_threads if (li == 0 and pi == 0) else 1, max_threads))
            for ti in range(nth):
                tid += 1 + draw(st.integers(0, 2))
                s = {"loom": lname, "pid": pid * 10, "tid": tid, "app": 1 + pi + li,
                     "require": dict(req), "events": []}
                if first:
                    s["cpus"] = cpus
                    first = False
                if use_rank:
                    s["_rank"] = rank
                streams.append(s)
            rank += 1
    if use_rank:
        # libovni records the rank in the metadata of the thread that set it: sometimes every
        # thread of a process carries it, sometimes only one of them (not necessarily the first)
        sparse = draw(st.booleans())
        byproc = {}
        for i, s in enumerate(streams):
            byproc.setdefault((s["loom"], s["pid"]), []).append(i)
        keep = set()
        for k_, idxs in sorted(byproc.items()):
            keep.add(idxs[draw(st.integers(0, len(idxs) - 1))] if sparse else -1)
        for i, s in enumerate(streams):
            r = s.pop("_rank")
            if not sparse or i in keep:
                s["rank"] = [r, rank]
    if marks:
        defs = {}
        # type numbers from the whole documented range 0..99, in no particular order
        numbers = draw(st.lists(st.sampled_from([0, 1, 2, 7, 50, 98, 99]), min_size=marks, max_size=marks, unique=True))
        for mt in numbers:
            kind = draw(st.sampled_from(["single", "stack"]))
            d = {"title": "mark type %d" % mt, "chan_type": kind}
            if draw(st.booleans()):
                d["labels"] = {str(v): "label %d/%d" % (mt, v) for v in range(1, 4)}
            defs[str(mt)] = d
        streams[0].setdefault("extra", {})["ovni.mark"] = defs
    if breakdown:
        for s in streams:
            for m in models:
                if m in ("V", "6"):
                    s.setdefault("extra", {})["%s.can_breakdown" % R.MODEL_NAMES[m]] = True
    return {"streams": streams, "_models": list(models)}


class Walk:
    """Incremental construction of a history against a live reference model."""

    def __init__(self, draw, tr, lint=False, enable_all=False, t0=1000):
        self.draw = draw
        self.tr = tr
        self.model = R.Model(tr, lint=lint, enable_all=enable_all)
        self.clock = t0
        self.last_stream = None
        self.rejected = None       # info of the illegal event, once one was added
        self.soft = False          # the illegal event has a natural effect; walk may continue
        self.n = 0
        self.unclaimed = 0
        self.same_clock = 0

    def threads(self):
        return self.model.threads

    def _next_clock(self, sidx, allow_same):
        if self.last_stream is None:
            return self.clock          # the very first event of the trace carries t0 itself
        d = self.draw(st.integers(0 if (allow_same and self.last_stream == sidx) else 1, 12))
        if d == 0:
            self.same_clock += 1
        return self.clock + d

    def emit(self, th, mcv, payload_hex="", jumbo=0, allow_same=True, must=False):
        """Try to append an event by thread th.  Returns 'ok', 'illegal' (added,
        walk is finished), 'unclaimed' (not added)."""
        if self.rejected is not None and (not self.soft or not must):
            return "done"
        sidx = th.sidx
        clk = self._next_clock(sidx, allow_same)
        e = T.ev(mcv, clk, payload_hex, jumbo)
        try:
            self.model.apply(sidx, e)
        except R.Reject as r:
            if r.stage == "unclaimed":
                self.unclaimed += 1
                return "unclaimed"
            if must:
                return "unclaimed"
            self.tr["streams"][sidx]["events"].append(e)
            self.clock = clk
            self.last_stream = sidx
            self.rejected = {"mcv": mcv, "why": r.why, "stream": sidx}
            # Build the continuation "as if the event had been accepted": a
            # tree that wrongly accepts it must then reach a clean end.
            try:
                self.model.apply(sidx, e, permissive=True)
                self.soft = True
            except R.Reject:
                self.soft = False
            return "illegal"
        self.tr["streams"][sidx]["events"].append(e)
        self.clock = clk
        self.last_stream = sidx
        self.n += 1
        return "ok"

    def legal(self, th, mcv, payload_hex="", jumbo=0):
        """Append only if the model accepts it (never ends the walk)."""
        return self.emit(th, mcv, payload_hex, jumbo, must=True) == "ok"

    # -- closing ----------------------------------------------------------------
    def close_thread(self, th, unwind=True):
        m = self.model
        if th.state in (R.ST_UNKNOWN, R.ST_DEAD):
            return
        if th.out_of_cpu:
            self.legal(th, "KCI")
        if th.state == R.ST_PAUSED:
            self.legal(th, "OHr")
        if th.state == R.ST_WARMING:
            self.legal(th, "OHr")
        if th.flushing:
            self.legal(th, "OF]")
        if unwind and th.state == R.ST_COOLING:
            if self.legal(th, "OHp"):
                self.legal(th, "OHr")
        if unwind and th.state == R.ST_RUNNING:
            self.unwind(th)
        self.legal(th, "OHe")

    def unwind(self, th):
        """Pop every open region / end every body so that lint passes."""
        regs = R.regions()
        leave_of = {}
        for mcv, (op, m, qn, label) in regs.items():
            if op == "pop":
                leave_of[(m, qn, label)] = mcv
        progress = True
        guard = 0
        while progress and guard < 2000:
            guard += 1
            progress = False
            # task bodies first if they are the innermost region
            for key, stv in list(th.q.items()):
                if not isinstance(stv, list) or not stv:
                    continue
                m, qn = key
                if qn.startswith("mark"):
                    continue
                top = stv[-1]
                if m in ("V", "6") and qn == "subsystem" and top == R.L(R.L_TASK_BODY[m]):
                    b = th.bodies[m][-1] if th.bodies[m] else None
                    if b is None:
                        continue
                    if b.state == "paused":
                        ok = self.legal(th, m + "Tr", self._task_payload(m, b))
                        if not ok:
                            continue
                    if self.legal(th, m + "Te", self._task_payload(m, b)):
                        progress = True
                    continue
                mcv = leave_of.get((m, qn, top[1]))
                if mcv and self.legal(th, mcv):
                    progress = True

    def _task_payload(self, m, b):
        if m == "V":
            return T.P("II", b.task.id, b.id)
        return T.P("I", b.task.id)

    def close_all(self, unwind=True, leave=()):
        """Bring every thread (but those in `leave`) to Dead.  Threads that never started execute on
        the virtual CPU first; paused threads whose CPU is busy are retried
        after the others have ended."""
        for _round in range(4):
            pending = False
            for th in self.threads():
                if th in leave:
                    continue
                if th.state == R.ST_UNKNOWN:
                    self.legal(th, "OHx", T.P("iiQ", -1, -1, 0))
                self.close_thread(th, unwind)
                if th.state != R.ST_DEAD:
                    pending = True
            if not pending:
                break

    def all_dead_or_unstarted(self):
        return all(t.state in (R.ST_DEAD,) for t in self.threads())


# ---------------------------------------------------------------------------
# proposal helpers: each returns (mcv, payload_hex, jumbo)

STATE_LEGAL = {
    R.ST_RUNNING: ["OHp", "OHc", "OHe"],
    R.ST_COOLING: ["OHp", "OHe"],
    R.ST_PAUSED: ["OHr", "OHw"],
    R.ST_WARMING: ["OHr"],
}
STATE_ALL = ["OHp", "OHr", "OHc", "OHw", "OHe"]


def prop_execute(draw, w, th, prefer_free=True):
    loom = th.proc.loom
    idxs = sorted(loom.cpus_by_index)
    free = [i for i in idxs if not any(t.state == R.ST_RUNNING for t in loom.cpus_by_index[i].threads)]
    cands = (free if (prefer_free and free) else idxs) + [-1]
    if prefer_free and free:
        idx = draw(st.sampled_from(free + [-1] if draw(st.integers(0, 5)) == 0 else free))
    else:
        idx = draw(st.sampled_from(cands))
    return ("OHx", T.P("iiQ", idx, draw(st.integers(-1, 5)), draw(st.integers(0, 3))), 0)


def prop_state(draw, w, th, wild=False):
    if wild or th.state not in STATE_LEGAL:
        return (draw(st.sampled_from(STATE_ALL)), "", 0)
    opts = [o for o in STATE_LEGAL[th.state] if o != "OHe"] or STATE_LEGAL[th.state]
    return (draw(st.sampled_from(opts)), "", 0)


def prop_affinity(draw, w, th, remote_ok=True):
    loom = th.proc.loom
    idxs = sorted(loom.cpus_by_index) + [-1]
    live = [t for t in w.threads() if t.proc.loom is loom and t is not th and t.cpu is not None]
    if remote_ok and live and draw(st.booleans()):
        tgt = draw(st.sampled_from(live))
        cur = tgt.cpu.index
        others = [i for i in idxs if i != cur] or idxs
        return ("OAr", T.P("ii", draw(st.sampled_from(others)), tgt.tid), 0)
    return ("OAs", T.P("i", draw(st.sampled_from(idxs))), 0)


_pairs_by_model = {}


def model_pairs(m):
    if m not in _pairs_by_model:
        _pairs_by_model[m] = R.region_pairs(m)
    return _pairs_by_model[m]


def prop_contend(draw, w, th):
    """An event that would put a second RUNNING thread on an occupied physical CPU."""
    loom = th.proc.loom
    busy = [c for c in loom.cpus_by_index.values() if any(t.state == R.ST_RUNNING for t in c.threads)]
    if not busy:
        return None
    c = draw(st.sampled_from(sorted(busy, key=lambda c: c.index)))
    if th.state == R.ST_UNKNOWN:
        return ("OHx", T.P("iiQ", c.index, -1, 0), 0)
    if th.state in (R.ST_PAUSED, R.ST_WARMING) and th.cpu is c:
        return ("OHr", "", 0)
    if th.state == R.ST_RUNNING and th.cpu is not c:
        return ("OAs", T.P("i", c.index), 0)
    others = [t for t in w.threads() if t.proc.loom is loom and t.state == R.ST_RUNNING and t.cpu is not c and t is not th]
    if others and th.state in R.ACTIVE:
        return ("OAr", T.P("ii", c.index, draw(st.sampled_from(others)).tid), 0)
    return None


def prop_region(draw, w, th, models, wild=False, pop_bias=2):
    """Enter a region of an enabled model or leave the innermost one."""
    regs = R.regions()
    stacks = [(k, v) for k, v in th.q.items() if isinstance(v, list) and v and not k[1].startswith("mark")
              and k[0] in models]
    do_pop = stacks and draw(st.integers(0, 3 + pop_bias)) >= 3
    if do_pop:
        key, stv = draw(st.sampled_from(stacks))
        m, qn = key
        if wild and len(stv) >= 1:
            # leave something that is not innermost
            cands = [r for r in model_pairs(m) if R.TYPE2Q[r["type"]] == key and r["label"] != stv[-1][1]]
            if cands:
                return (draw(st.sampled_from(cands))["leave"], "", 0)
        top = stv[-1][1]
        for r in model_pairs(m):
            if R.TYPE2Q[r["type"]] == key and r["label"] == top:
                return (r["leave"], "", 0)
        return None   # top is a task body: handled by task proposals
    ms = [m for m in models if model_pairs(m)]
    if not ms:
        return None
    m = draw(st.sampled_from(ms))
    r = draw(st.sampled_from(model_pairs(m)))
    return (r["enter"], "", 0)


def prop_idle(draw, w, th, models):
    ms = [m for m in models if m in ("V", "6")]
    if not ms:
        return None
    m = draw(st.sampled_from(ms))
    cur = th.q.get((m, "idle"))
    opts = [k for k, lab in R.IDLE_EVENTS.items() if R.L(lab) != cur]
    return (m + "P" + draw(st.sampled_from(opts)), "", 0)


def prop_mark(draw, w, th, wild=False):
    marks = w.model.marks
    if not marks:
        return None
    mt = draw(st.sampled_from(sorted(marks)))
    kind = marks[mt][0]
    key = ("O", "mark%d" % mt)
    if kind == "single":
        v = draw(st.integers(1, 5)) if not wild else draw(st.sampled_from([0, 1, -1, 2 ** 40]))
        return ("OM=", T.P("qi", v, mt), 0)
    stv = th.q[key]
    if stv and draw(st.booleans()):
        v = stv[-1] if not wild else stv[-1] + 1
        return ("OM]", T.P("qi", v, mt), 0)
    return ("OM[", T.P("qi", draw(st.integers(1, 5)), mt), 0)


def prop_noeffect(draw, w, th):
    k = draw(st.sampled_from(["OB.", "OU[", "OU]"]))
    return (k, "", 0)


def prop_flush(draw, w, th):
    return ("OF]" if th.flushing else "OF[", "", 0)


def prop_kernel(draw, w, th):
    return ("KCI" if th.out_of_cpu else "KCO", "", 0)


LABELS = ["alpha", "beta", "gamma", "delta", "main", "solve", ""]


def prop_task(draw, w, th, models, wild=False):
    """Task life-cycle proposals for nOS-V / Nanos6."""
    ms = [m for m in models if m in ("V", "6")]
    if not ms:
        return None
    m = draw(st.sampled_from(ms))
    proc = th.proc
    types = proc.ttypes[m]
    tasks = proc.tasks[m]
    if not types or (len(types) < 3 and draw(st.integers(0, 9)) == 0):
        gid = draw(st.integers(1, 6))
        used = set(types.values())
        labs = [l for l in LABELS if (l or "(unlabeled task type %d)" % gid) not in used] or ["t%d" % gid]
        lab = draw(st.sampled_from(labs))
        return (m + "Yc", (struct.pack("<I", gid) + lab.encode() + b"\0").hex(), 1)
    if not tasks or (len(tasks) < 4 and draw(st.integers(0, 5)) == 0):
        tid = draw(st.integers(1, 8))
        typ = draw(st.sampled_from(sorted(types)))
        v = "c"
        if m == "V" and draw(st.integers(0, 2)) == 0:
            v = "C"
        return (m + "T" + v, T.P("II", tid, typ), 0)
    top = th.bodies[m][-1] if th.bodies[m] else None
    acts = ["x", "x", "p", "r", "e"]
    a = draw(st.sampled_from(acts))
    if a in ("p", "r") and getattr(w, "no_bare_pause", False):
        ss = th.q.get((m, "subsystem"))
        if ss and ss[-1] == R.L(R.L_TASK_BODY[m]):
            # known finding C20-bare-task-pause: a task is paused or resumed only while
            # a region is open above its body region (as the runtimes do)
            w.excluded_known = getattr(w, "excluded_known", 0) + 1
            return None
    if not wild and top is not None and top.task in tasks.values():
        if top.state == "running" and a in ("p", "e"):
            return (m + "T" + a, _tp(m, top.task.id, top.id), 0)
        if top.state == "paused" and a == "r":
            return (m + "Tr", _tp(m, top.task.id, top.id), 0)
    task = draw(st.sampled_from([tasks[k] for k in sorted(tasks)]))
    if "parallel" in task.flags:
        bid = draw(st.integers(1, 3))
    else:
        bid = 0
    if wild:
        bid = draw(st.integers(0, 2))
    return (m + "T" + a, _tp(m, task.id, bid), 0)


def prop_task_wild(draw, w, th, models):
    """Targeted violations of the task rules named in C07."""
    ms = [m for m in models if m in ("V", "6")]
    if not ms:
        return None
    m = draw(st.sampled_from(ms))
    proc = th.proc
    tasks = proc.tasks[m]
    cands = []
    top = th.bodies[m][-1] if th.bodies[m] else None
    for t in tasks.values():
        for b in t.bodies.values():
            bid = b.id
            if b.state == "running" and b.thread is th and b is top and "parallel" in t.flags:
                cands.append(("p", t.id, bid))            # parallel bodies cannot pause
            if b.state in ("running", "paused") and b.thread is not th:
                cands.append(("x", t.id, bid))            # body lives on another thread's stack
                cands.append(("e", t.id, bid))
                cands.append(("r", t.id, bid))
            if b.thread is th and b is not top and b.state == "paused":
                cands.append(("r", t.id, bid))            # resume of a non-top body
            if b.thread is th and b is not top:
                cands.append(("e", t.id, bid))
            if b.state == "dead" and "resurrect" not in t.flags:
                cands.append(("x", t.id, bid))            # only resurrectable tasks run again
            if b.state == "created":
                cands.append(("p", t.id, bid))
        if top is not None and top.state == "running" and t is not top.task and "relax" not in top.task.flags:
            nb = 1 if "parallel" in t.flags else 0
            if not t.bodies or "parallel" in t.flags:
                cands.append(("x", t.id, nb))             # nest over a running body
    if not cands:
        return prop_task(draw, w, th, models, wild=True)
    a, tid, bid = draw(st.sampled_from(sorted(set(cands))))
    return (m + "T" + a, _tp(m, tid, bid), 0)


def _tp(m, tid, bid):
    if m == "V":
        return T.P("II", tid, bid)
    return T.P("I", tid)


# ---------------------------------------------------------------------------
# generic history strategy

class Profile:
    def __init__(self, kinds, models=None, max_looms=2, max_procs=2, max_threads=3, max_cpus=3,
                 steps=(5, 50), modes=("legal", "legal", "illegal", "noend"), lint=True,
                 marks=0, ranks=False, min_threads=1, breakdown=False, unwind=None, flags=None,
                 wild_kinds=None, extra_flags=()):
        self.extra_flags = tuple(extra_flags)   # appended to the flags whatever lint is
        self.kinds = kinds              # list of kind names (repeat for weight)
        self.models = models            # None = draw; list = fixed; callable(draw) -> list
        self.max_looms, self.max_procs, self.max_threads, self.max_cpus = max_looms, max_procs, max_threads, max_cpus
        self.steps = steps
        self.modes = modes
        self.lint = lint
        self.marks = marks
        self.ranks = ranks
        self.min_threads = min_threads
        self.breakdown = breakdown
        self.unwind = unwind
        self.flags = flags
        self.wild_kinds = wild_kinds or kinds


WILD_CODES = ["VZz", "6Zz", "OZz", "OHz", "OAx", "KCx", "MZZ", "TZz", "DZz", "PZz", "VTz", "6Tz", "VYx", "XXX"]


def propose(draw, w, th, kind, models, wild=False):
    if kind == "state":
        return prop_state(draw, w, th, wild)
    if kind == "affinity":
        return prop_affinity(draw, w, th)
    if kind == "contend":
        return prop_contend(draw, w, th) or prop_affinity(draw, w, th)
    if kind == "region":
        if wild and draw(st.integers(0, 3)) == 0:
            allm = [m for m in ALL_MODELS if model_pairs(m)]
            m = draw(st.sampled_from(allm))
            r = draw(st.sampled_from(model_pairs(m)))
            return (r[draw(st.sampled_from(["enter", "leave"]))], "", 0)
        return prop_region(draw, w, th, models, wild)
    if kind == "gated":
        # a region event by a thread that is not in the state its model requires
        bad = [t for t in w.threads() if t.state in (R.ST_PAUSED, R.ST_COOLING, R.ST_WARMING, R.ST_UNKNOWN, R.ST_DEAD)
               or t.out_of_cpu]
        if not bad:
            return None
        t2 = draw(st.sampled_from(bad))
        p = prop_region(draw, w, t2, models)
        if p is None:
            return None
        return ("@", t2, p)
    if kind == "idle":
        return prop_idle(draw, w, th, models)
    if kind == "mark":
        return prop_mark(draw, w, th, wild)
    if kind == "noeffect":
        return prop_noeffect(draw, w, th)
    if kind == "flush":
        return prop_flush(draw, w, th)
    if kind == "kernel":
        return prop_kernel(draw, w, th) if "K" in models else None
    if kind == "task":
        if wild and draw(st.integers(0, 3)) != 0:
            return prop_task_wild(draw, w, th, models)
        return prop_task(draw, w, th, models, wild)
    if kind == "unknown":
        return (draw(st.sampled_from(WILD_CODES)), "", 0)
    raise ValueError(kind)


@st.composite
def history(draw, prof):
    models = prof.models
    if callable(models):
        models = models(draw)
    tr = draw(systems(max_looms=prof.max_looms, max_procs=prof.max_procs, max_threads=prof.max_threads,
                      max_cpus=prof.max_cpus, models=models, ranks=prof.ranks, marks=prof.marks,
                      min_threads=prof.min_threads, breakdown=prof.breakdown))
    models = tr["_models"]
    lint = prof.lint if isinstance(prof.lint, bool) else draw(st.booleans())
    w = Walk(draw, tr, lint=lint, t0=draw(st.sampled_from([1000, 1000, 1000, 0, 1, 2 ** 40, 2 ** 53 + 5])))
    w.no_bare_pause = getattr(prof, "no_bare_pause", False)
    ths = w.threads()
    n = draw(st.integers(*prof.steps))
    mode = draw(st.sampled_from(prof.modes))
    bad_at = draw(st.integers(0, max(0, n - 1))) if mode == "illegal" else -1
    # most threads start right away
    for th in ths:
        if draw(st.integers(0, 4)) != 0:
            w.legal(th, *prop_execute(draw, w, th))
    for step in range(n):
        if w.rejected is not None and (not w.soft or draw(st.integers(0, 3)) == 0):
            break
        th = ths[draw(st.integers(0, len(ths) - 1))]
        wild = (step == bad_at)
        if th.state == R.ST_UNKNOWN and not wild:
            # quantities that are shown "always" may change before the thread's first execute
            early = [k for k in ("kernel", "flush") if k in prof.kinds and (k != "kernel" or "K" in models)]
            if early and draw(st.integers(0, 2)) == 0:
                p = propose(draw, w, th, draw(st.sampled_from(early)), models, False)
                if p is not None and p[0] != "@":
                    w.legal(th, *p)
                    continue
            w.legal(th, *prop_execute(draw, w, th, prefer_free=draw(st.integers(0, 3)) != 0))
            continue
        if th.state == R.ST_DEAD and not wild:
            continue
        if not wild and "task" in prof.kinds and draw(st.integers(0, 2)) == 0:
            # a task that was paused inside an API region: leave that region while the task is still
            # paused, so that the subsystem is back to "task body" while no body runs
            done = False
            for m in ("V", "6"):
                top = th.bodies[m][-1] if (m in models and th.bodies[m]) else None
                ss = th.q.get((m, "subsystem"))
                if top is not None and top.state == "paused" and ss and len(ss) >= 2 and ss[-1] != R.L(R.L_TASK_BODY[m]):
                    for pr in model_pairs(m):
                        if R.L(pr["label"]) == ss[-1] and w.legal(th, pr["leave"]):
                            done = True
                            break
                    break
            if done:
                continue
        kind = draw(st.sampled_from(prof.wild_kinds if wild else prof.kinds))
        p = propose(draw, w, th, kind, models, wild)
        if p is None:
            continue
        if p[0] == "@":
            th, p = p[1], p[2]
        if wild:
            w.emit(th, *p)
        else:
            w.legal(th, *p)
    if (w.rejected is None or w.soft) and mode != "noend":
        unwind = prof.unwind if prof.unwind is not None else draw(st.booleans())
        w.close_all(unwind=unwind)
    elif w.rejected is None and mode == "noend" and draw(st.booleans()):
        # only some threads (often a single one, anywhere in the system) are left unfinished
        k = draw(st.sampled_from([1, 1, 1, 2, len(ths)]))
        leave = draw(st.lists(st.sampled_from(ths), min_size=1, max_size=max(1, min(k, len(ths))), unique_by=id))
        w.close_all(unwind=draw(st.booleans()), leave=leave)
    flags = list(prof.flags) if prof.flags is not None else (["-l"] if lint else [])
    flags += [f for f in getattr(prof, "extra_flags", ()) if f not in flags]
    tr["_flags"] = flags
    tr["_mode"] = mode
    tr["_excluded_known"] = getattr(w, "excluded_known", 0)
    return tr
