"""The *declared* side of the event catalogue: doc/user/emulation/events.md,
parsed at check time from the tree under test."""
import os, re, html
from . import build as _b

_DT = re.compile(r'^<dt><a id="[^"]*" href="[^"]*"><pre>(.*)</pre></a></dt>$')
_DD = re.compile(r'^<dd>(.*)</dd>$')
_MODEL = re.compile(r'^List of events for the model \*(\w+)\* with identifier \*\*`(.)`\*\* at version `([0-9.]+)`')

SIZES = {"u8": 1, "i8": 1, "u16": 2, "i16": 2, "u32": 4, "i32": 4, "u64": 8, "i64": 8}


class EvDecl:
    def __init__(self, model, sig, desc):
        self.model = model
        self.sig = sig
        self.desc = desc
        self.mcv = sig[:3]
        rest = sig[3:]
        self.jumbo = rest.startswith("+")
        if self.jumbo:
            rest = rest[1:]
        self.args = []  # (type, name)
        if rest.startswith("("):
            inner = rest[1:rest.rindex(")")]
            for a in inner.split(","):
                t, n = a.strip().split()
                self.args.append((t, n))

    def payload_size(self):
        return sum(SIZES.get(t, 0) for t, _ in self.args)


def load(path=None):
    """Returns (models: {char: (name, version)}, decls: [EvDecl...])."""
    path = path or os.path.join(_b.REPO, "doc", "user", "emulation", "events.md")
    models = {}
    decls = []
    cur = None
    pend = None
    with open(path) as f:
        for line in f:
            line = line.rstrip("\n")
            m = _MODEL.match(line)
            if m:
                cur = m.group(2)
                models[cur] = (m.group(1), m.group(3))
                continue
            m = _DT.match(line)
            if m:
                pend = html.unescape(m.group(1))
                continue
            m = _DD.match(line)
            if m and pend is not None:
                decls.append(EvDecl(cur, pend, html.unescape(m.group(1))))
                pend = None
    return models, decls


_PAIRW = (("enters ", "leaves "), ("begins ", "ceases "), ("starts ", "stops  "))


def pairs(decls):
    """Documented enter/leave pairs: consecutive entries whose descriptions are
    'enters X'/'leaves X', 'begins X'/'ceases X' or 'starts X'/'stops  X'."""
    out = []
    for a, b in zip(decls, decls[1:]):
        if a.model != b.model:
            continue
        for wa, wb in _PAIRW:
            if a.desc.startswith(wa) and b.desc.startswith(wb) and a.desc[len(wa):] == b.desc[len(wb):]:
                out.append((a.model, a.mcv, b.mcv, a.desc[len(wa):]))
    return out
