"""Independent codec for stream.obs, written from doc/user/runtime/trace_spec.md.

Shares no code with src/rt/ovni.c or src/emu/stream.c.

Header: 4 bytes magic "ovni" + u32 LE version (1).
Event : u8 flags (high nibble flags, 0x10 = jumbo; low nibble payload size code:
        0 -> no payload, v -> v+1 bytes), 3 bytes MCV, u64 LE clock, payload.
Jumbo : size code 3 (4 bytes payload = u32 LE size of the jumbo data), then data.
"""
import struct

MAGIC = b"ovni"
VERSION = 1
HEADER = MAGIC + struct.pack("<I", VERSION)
JUMBO = 0x10


class DecodeError(Exception):
    pass


class Ev:
    __slots__ = ("mcv", "clock", "payload", "jumbo", "flags_hi", "offset", "raw")

    def __init__(self, mcv, clock, payload=b"", jumbo=False, flags_hi=None, offset=None, raw=None):
        self.mcv = mcv          # str of 3 chars (latin-1)
        self.clock = clock      # unsigned 64
        self.payload = payload  # normal: the payload bytes; jumbo: the jumbo data (without the u32 size)
        self.jumbo = jumbo
        self.flags_hi = flags_hi if flags_hi is not None else (JUMBO if jumbo else 0)
        self.offset = offset
        self.raw = raw

    def encode(self):
        return encode_ev(self.mcv, self.clock, self.payload, self.jumbo)

    def key(self):
        return (self.mcv, self.clock, bytes(self.payload), self.jumbo)

    def __repr__(self):
        p = self.payload.hex() if len(self.payload) <= 24 else "%s..(%d)" % (self.payload[:8].hex(), len(self.payload))
        return "Ev(%s,%d,%s%s)" % (self.mcv, self.clock, "J:" if self.jumbo else "", p)

    def __eq__(self, o):
        return isinstance(o, Ev) and self.key() == o.key()

    def __hash__(self):
        return hash(self.key())


def encode_ev(mcv, clock, payload=b"", jumbo=False):
    m = mcv.encode("latin-1") if isinstance(mcv, str) else bytes(mcv)
    assert len(m) == 3
    clock &= 0xFFFFFFFFFFFFFFFF
    if jumbo:
        return struct.pack("<B3sQI", JUMBO | 3, m, clock, len(payload)) + bytes(payload)
    n = len(payload)
    assert n == 0 or 2 <= n <= 16, n
    code = 0 if n == 0 else n - 1
    return struct.pack("<B3sQ", code, m, clock) + bytes(payload)


def encode_stream(events, header=HEADER):
    out = [header]
    for e in events:
        out.append(e.encode() if isinstance(e, Ev) else e)
    return b"".join(out)


def decode_stream(data, strict=True):
    """Decode a whole stream.obs.  Raises DecodeError on any structural problem
    (bad header, event running past the end of the file, bad jumbo size code)."""
    if len(data) < 8:
        raise DecodeError("short header (%d bytes)" % len(data))
    if data[:4] != MAGIC:
        raise DecodeError("bad magic %r" % data[:4])
    (ver,) = struct.unpack_from("<I", data, 4)
    if ver != VERSION:
        raise DecodeError("bad version %d" % ver)
    off = 8
    evs = []
    n = len(data)
    while off < n:
        if off + 12 > n:
            raise DecodeError("truncated event header at offset %d (file size %d)" % (off, n))
        flags, m, clock = struct.unpack_from("<B3sQ", data, off)
        code = flags & 0x0F
        hi = flags & 0xF0
        psize = 0 if code == 0 else code + 1
        if off + 12 + psize > n:
            raise DecodeError("truncated payload at offset %d" % off)
        if hi & JUMBO:
            if strict and code != 3:
                raise DecodeError("jumbo event with payload code %d at offset %d" % (code, off))
            if psize < 4:
                raise DecodeError("jumbo event without size at offset %d" % off)
            (jsz,) = struct.unpack_from("<I", data, off + 12)
            end = off + 12 + psize + jsz
            if end > n:
                raise DecodeError("truncated jumbo data at offset %d (size %d)" % (off, jsz))
            payload = data[off + 12 + psize:end]
            ev = Ev(m.decode("latin-1"), clock, payload, True, hi, off, data[off:end])
        else:
            end = off + 12 + psize
            if strict and hi != 0:
                raise DecodeError("unknown flags 0x%x at offset %d" % (hi, off))
            ev = Ev(m.decode("latin-1"), clock, data[off + 12:end], False, hi, off, data[off:end])
        evs.append(ev)
        off = end
    return evs


def validate_stream(data):
    """Trace-spec validator used by C02: header, exact tiling, non-decreasing
    clocks, flush markers strictly alternating OF[ OF] starting with OF[ and
    not left open.  Returns (events, problems[])."""
    problems = []
    try:
        evs = decode_stream(data)
    except DecodeError as e:
        return [], ["decode: %s" % e]
    last = None
    inflush = False
    for i, e in enumerate(evs):
        if last is not None and e.clock < last:
            problems.append("clock goes backwards at event %d (%s): %d -> %d" % (i, e.mcv, last, e.clock))
        last = e.clock
        if e.mcv == "OF[":
            if inflush:
                problems.append("nested OF[ at event %d" % i)
            inflush = True
        elif e.mcv == "OF]":
            if not inflush:
                problems.append("OF] without OF[ at event %d" % i)
            inflush = False
    if inflush:
        problems.append("unterminated OF[ at end of stream")
    return evs, problems
