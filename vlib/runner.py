"""Driver shared by all checks: builds, sharding over worker processes,
Hypothesis plumbing (seeded, no database, shrinking), replay files, known
findings, evidence files and the VIOLATION protocol."""
import os, sys, json, time, hashlib, shutil, traceback, importlib, argparse, glob, signal
import multiprocessing as mp

VERIF = os.path.dirname(os.path.dirname(os.path.abspath(__file__)))
sys.path.insert(0, VERIF)

from vlib import build as vbuild  # noqa: E402


OTHERFS = ["/var/tmp", "/tmp", "/dev/shm"]     # where to look for a second file system


class Violation(Exception):
    """Raised by a part's run() when the oracle is contradicted."""


class Part:
    def __init__(self, name, run, strategy=None, enum=None, budget=None, cap_s=None, doc="", presharded=False, replay_any=0):
        self.replay_any = replay_any  # schedule-dependent part: a failing case must fail again within n re-runs
        self.presharded = presharded  # enum(ctx) already yields only this worker's share (uses ctx.widx/ctx.nworkers)
        self.name = name
        self.run = run                # run(case, ctx) -> info dict | None ; raises Violation
        self.strategy = strategy      # callable(ctx) -> hypothesis strategy   (kind hyp)
        self.enum = enum              # callable(ctx) -> iterable of cases     (kind enum, sharded)
        self.budget = budget or {"quick": 200, "thorough": 2000}
        self.cap_s = cap_s or {"quick": 240, "thorough": 3000}
        self.doc = doc


class Stats:
    def __init__(self):
        self.evaluations = 0
        self.classes = {}
        self.nt = set()
        self.samples = []
        self.discarded = 0
        self.excluded_known = 0
        self.truncated = False
        self.per_part = {}
        self.extra = {}

    def cls(self, name, n=1):
        self.classes[name] = self.classes.get(name, 0) + n

    def merge(self, o):
        self.evaluations += o.evaluations
        for k, v in o.classes.items():
            self.classes[k] = self.classes.get(k, 0) + v
        self.nt |= o.nt
        for s in o.samples:
            if len(self.samples) < 6:
                self.samples.append(s)
        self.discarded += o.discarded
        self.excluded_known += o.excluded_known
        self.truncated = self.truncated or o.truncated
        for k, v in o.per_part.items():
            d = self.per_part.setdefault(k, {"evaluations": 0, "nontrivial": 0, "exhaustive": True})
            d["evaluations"] += v["evaluations"]
            d["nontrivial"] += v["nontrivial"]
            d["exhaustive"] = d["exhaustive"] and v.get("exhaustive", False)
        for k, v in o.extra.items():
            if isinstance(v, (int, float)):
                self.extra[k] = self.extra.get(k, 0) + v
            else:
                self.extra.setdefault(k, v)


class Ctx:
    def __init__(self, check_id, tier, seed, widx, nworkers, scratch, builds, shared):
        self.id = check_id
        self.tier = tier
        self.seed = seed
        self.widx = widx
        self.nworkers = nworkers
        self.scratch = scratch
        self.builds = builds
        self.shared = shared
        self.stats = Stats()
        self.tmp = os.path.join(scratch, "w%d" % widx)
        os.makedirs(self.tmp, exist_ok=True)
        self._n = 0
        self.known = load_known().get("open", [])

    def b(self, variant=None):
        if variant is None:
            variant = next(iter(self.builds))
        return self.builds[variant]

    def newdir(self):
        self._n += 1
        d = os.path.join(self.tmp, "c%d" % self._n)
        if os.path.exists(d):
            shutil.rmtree(d, ignore_errors=True)
        os.makedirs(d)
        return d

    def rmdir(self, d):
        shutil.rmtree(d, ignore_errors=True)

    def otherfs_dir(self):
        """A fresh directory on a file system other than the scratch one (None if there is
        none): <cand>/<scratch name>.x/w<k>/c<n>; the driver removes <scratch name>.x at exit."""
        dev = os.stat(self.tmp).st_dev if os.path.isdir(self.tmp) else os.stat(self.scratch).st_dev
        for cand in OTHERFS:
            try:
                if not os.path.isdir(cand) or os.stat(cand).st_dev == dev or not os.access(cand, os.W_OK):
                    continue
                self._n += 1
                d = os.path.join(cand, os.path.basename(self.scratch) + ".x", "w%d" % self.widx, "c%d" % self._n)
                shutil.rmtree(d, ignore_errors=True)
                os.makedirs(d)
                return d
            except OSError:
                continue
        return None

    def known_selectors(self):
        return [k.get("selector") for k in self.known if k.get("property") == self.id]


def canon(case):
    return json.dumps(case, sort_keys=True, separators=(",", ":"), default=str)


def h128(s):
    if not isinstance(s, (bytes, bytearray)):
        s = str(s).encode()
    return hashlib.blake2b(s, digest_size=16).digest()


def abbreviate(x, maxlen=3000):
    s = canon(x)
    if len(s) <= maxlen:
        return x
    return {"abbreviated_json": s[:maxlen] + "...(%d chars)" % len(s)}


def subseed(seed, check_id, part, widx):
    return int(hashlib.sha256(("%d/%s/%s/%d" % (seed, check_id, part, widx)).encode()).hexdigest()[:8], 16)


def load_known():
    p = os.path.join(VERIF, "known_findings.json")
    if not os.path.exists(p):
        return {"open": [], "fixed": []}
    with open(p) as f:
        return json.load(f)


# ----------------------------------------------------------------------------
# worker side

def _account(ctx, part, case, info):
    st = ctx.stats
    st.evaluations += 1
    pp = st.per_part.setdefault(part.name, {"evaluations": 0, "nontrivial": 0, "exhaustive": False})
    pp["evaluations"] += 1
    info = info or {}
    if info.get("discard"):
        st.discarded += 1
    for c in info.get("cls", ()):
        st.cls(c)
    if info.get("nt"):
        key = info.get("key")
        hk = h128(part.name + "|" + (canon(case) if key is None else str(key)))
        if hk not in st.nt:
            st.nt.add(hk)
            pp["nontrivial"] += 1
            mine = [s for s in st.samples if s.get("part") == part.name]
            if len(mine) < 1:
                st.samples.append({"part": part.name, "case": abbreviate(info.get("sample", case))})


def _run_part(ctx, part, stop_ev):
    """Returns failure dict or None."""
    tier = ctx.tier
    t0 = time.time()
    cap = part.cap_s[tier]
    last_fail = {}
    shrink_budget = 45 if tier == "quick" else 150

    def body(case):
        if stop_ev.is_set():
            return
        if time.time() - t0 > cap:
            ctx.stats.truncated = True
            return
        if "t0" in last_fail and time.time() - last_fail["t0"] > shrink_budget:
            # Shrinking budget exhausted: make Hypothesis converge at once and
            # keep the smallest failing case seen so far (frozen in last_fail).
            last_fail["frozen"] = True
            raise Violation("shrink budget exhausted")
        try:
            try:
                info = part.run(case, ctx)
            except Violation:
                raise
            except (OSError, ValueError, KeyError, IndexError, TypeError, AttributeError, AssertionError) as ex:
                # The oracle could not interpret what the code under test produced (missing
                # or malformed output file, unexpected line format, ...).  On a tree where the
                # property holds this never happens (multi-seed soaks); on a changed tree it
                # means the observable behaviour left the documented format, so it is
                # reported as a violation with the exception as the message rather than
                # hidden behind an infrastructure error.
                raise Violation("oracle could not interpret the output of the code under test: %s: %s (%s)" % (
                    type(ex).__name__, ex, traceback.format_exc().strip().splitlines()[-3].strip()))
        except Violation as v:
            last_fail["case"] = case
            last_fail["msg"] = str(v)
            last_fail.setdefault("t0", time.time())
            raise
        _account(ctx, part, case, info)

    if part.enum is not None:
        n = 0
        complete = True
        for i, case in enumerate(part.enum(ctx)):
            if not part.presharded and i % ctx.nworkers != ctx.widx:
                continue
            if stop_ev.is_set():
                complete = False
                break
            if time.time() - t0 > cap:
                ctx.stats.truncated = True
                complete = False
                break
            try:
                body(case)
            except Violation:
                return {"part": part.name, "case": last_fail["case"], "msg": last_fail["msg"]}
            n += 1
        pp = ctx.stats.per_part.setdefault(part.name, {"evaluations": 0, "nontrivial": 0, "exhaustive": False})
        pp["exhaustive"] = complete
        return None

    from hypothesis import given, settings, seed, HealthCheck, Phase, Verbosity
    total = part.budget[tier]
    per = max(1, (total + ctx.nworkers - 1) // ctx.nworkers)
    strat = part.strategy(ctx)

    @seed(subseed(ctx.seed, ctx.id, part.name, ctx.widx))
    @settings(max_examples=per, database=None, deadline=None, derandomize=False,
              report_multiple_bugs=False, phases=(Phase.generate, Phase.shrink),
              suppress_health_check=list(HealthCheck), verbosity=Verbosity.quiet,
              print_blob=False)
    @given(strat)
    def t(case):
        body(case)

    try:
        t()
    except Violation:
        return {"part": part.name, "case": last_fail["case"], "msg": last_fail["msg"]}
    except Exception as e:  # harness error or hypothesis flaky
        if last_fail:
            return {"part": part.name, "case": last_fail["case"], "msg": last_fail["msg"],
                    "note": "hypothesis: %s" % type(e).__name__}
        raise
    return None


def _worker(args):
    (check_name, tier, seed, widx, nworkers, scratch, builds, shared, stop_ev, only_parts) = args
    signal.signal(signal.SIGINT, signal.SIG_IGN)
    mod = importlib.import_module("checks." + check_name)
    ctx = Ctx(mod.ID, tier, seed, widx, nworkers, scratch, builds, shared)
    failure = None
    err = None
    try:
        for part in mod.parts(tier):
            if only_parts and part.name not in only_parts:
                continue
            if stop_ev.is_set():
                break
            failure = _run_part(ctx, part, stop_ev)
            if failure:
                stop_ev.set()
                break
    except Exception:
        err = traceback.format_exc()
        stop_ev.set()
    shutil.rmtree(ctx.tmp, ignore_errors=True)
    return (widx, ctx.stats, failure, err)


# ----------------------------------------------------------------------------
# driver side

def write_replay(check_id, failure, tier, seed):
    os.makedirs(os.path.join(VERIF, "replays"), exist_ok=True)
    body = {"property": check_id, "part": failure["part"], "tier": tier, "seed": seed,
            "case": failure["case"], "message": failure["msg"]}
    hk = h128(canon(body["case"]) + failure["part"]).hex()[:12]
    path = os.path.join(VERIF, "replays", "%s-%s.json" % (check_id, hk))
    with open(path, "w") as f:
        json.dump(body, f, indent=1, sort_keys=True, default=str)
    return path


def replay_once(mod, ctx, rep):
    """Re-executes a replay file's case without Hypothesis. Returns None if it
    passes, else the violation message."""
    parts = {p.name: p for p in mod.parts(ctx.tier)}
    p = parts.get(rep["part"])
    if p is None:
        return None
    try:
        p.run(rep["case"], ctx)
    except Violation as v:
        return str(v)
    return None


def match_known(mod, case, part, known):
    f = getattr(mod, "matches_known", None)
    for k in known:
        if k.get("property") != mod.ID:
            continue
        if f is not None and f(case, part, k):
            return k
    return None


def main(argv=None):
    ap = argparse.ArgumentParser()
    ap.add_argument("check")
    ap.add_argument("--tier", default=os.environ.get("VERIF_TIER", "quick"))
    ap.add_argument("--replay")
    ap.add_argument("--parts", help="comma separated part names (debugging)")
    ap.add_argument("--keep", action="store_true")
    ap.add_argument("--scale", type=float, default=float(os.environ.get("VERIF_SCALE", "1")))
    a = ap.parse_args(argv)
    tier = a.tier if a.tier in ("quick", "thorough") else "quick"
    try:
        seed = int(os.environ.get("VERIF_SEED", "0"))
    except ValueError:
        seed = 0
    jobs = int(os.environ.get("VERIF_JOBS", str(min(16, os.cpu_count() or 4))))
    name = a.check.lower()
    mod = importlib.import_module("checks." + name)
    t_start = time.time()
    base = os.environ.get("VERIF_SCRATCH", "/dev/shm")
    if not os.path.isdir(base):
        base = "/var/tmp"
    scratch = os.path.join(base, "ovni-verif.%s.%d" % (mod.ID, os.getpid()))
    os.makedirs(scratch, exist_ok=True)
    rc = 2
    try:
        rc = _main(a, mod, name, tier, seed, jobs, scratch, t_start)
    finally:
        if not a.keep:
            shutil.rmtree(scratch, ignore_errors=True)
        for cand in OTHERFS:
            shutil.rmtree(os.path.join(cand, os.path.basename(scratch) + ".x"), ignore_errors=True)
    sys.stdout.flush()
    return rc


def _main(a, mod, name, tier, seed, jobs, scratch, t_start):
    ID = mod.ID
    print("[%s] tier=%s seed=%d jobs=%d repo=%s" % (ID, tier, seed, jobs, vbuild.REPO), flush=True)
    builds = {}
    try:
        for v in mod.VARIANTS:
            builds[v] = vbuild.build(v, scratch, getattr(mod, "TARGETS", None))
        drv = Ctx(ID, tier, seed, 999, 1, scratch, builds, {})
        if hasattr(mod, "setup"):
            drv.shared.update(mod.setup(drv) or {})
    except vbuild.BuildError as e:
        # The tree under test does not build with the hooks on: nothing can be
        # decided.  This is an infrastructure failure, not a property violation.
        print("[%s] BUILD FAILED:\n%s" % (ID, e), flush=True)
        return 2
    shared = drv.shared
    print("[%s] built %s in %.1fs" % (ID, list(builds), time.time() - t_start), flush=True)

    known = load_known()
    open_known = [k for k in known.get("open", []) if k.get("property") == ID]

    if a.replay:
        with open(a.replay) as f:
            rep = json.load(f)
        msg = replay_once(mod, drv, rep)
        if msg:
            print("[%s] replay fails: %s" % (ID, msg))
            print("VIOLATION property=%s replay=%s" % (ID, os.path.abspath(a.replay)))
            return 1
        print("[%s] replay passes" % ID)
        return 0

    violations = []
    known_hits = []
    # 1. known findings: replay reproducers
    for k in open_known:
        rp = os.path.join(VERIF, k["reproducer"])
        with open(rp) as f:
            rep = json.load(f)
        msg = replay_once(mod, drv, rep)
        if msg:
            print("KNOWN-FINDING: property=%s %s" % (ID, k["what"]), flush=True)
            known_hits.append(k["id"])
        else:
            print("[%s] note: known finding %s no longer reproduces" % (ID, k["id"]), flush=True)
    known_repros = {os.path.abspath(os.path.join(VERIF, k["reproducer"])) for k in open_known}

    # 2. regression corpus
    corpus_n = 0
    for rp in sorted(glob.glob(os.path.join(VERIF, "corpus", ID, "*.json"))):
        if os.path.abspath(rp) in known_repros:
            continue
        with open(rp) as f:
            rep = json.load(f)
        corpus_n += 1
        msg = replay_once(mod, drv, rep)
        if msg:
            k = match_known(mod, rep["case"], rep["part"], open_known)
            if k:
                continue
            fails = sum(1 for _ in range(2) if replay_once(mod, drv, rep))
            if fails == 2:
                print("[%s] corpus case fails: %s: %s" % (ID, os.path.basename(rp), msg), flush=True)
                violations.append((rp, msg))

    # 3. generated search
    merged = Stats()
    failures = []
    errors = []
    if not violations:
        mgr = mp.Manager()
        stop_ev = mgr.Event()
        only = set(a.parts.split(",")) if a.parts else None
        args = [(name, tier, seed, i, jobs, scratch, builds, shared, stop_ev, only) for i in range(jobs)]
        ctxmp = mp.get_context("fork")
        with ctxmp.Pool(jobs) as pool:
            for (widx, st, failure, err) in pool.imap_unordered(_worker, args):
                merged.merge(st)
                if failure:
                    failure["widx"] = widx
                    failures.append(failure)
                if err:
                    errors.append(err)
        mgr.shutdown()
    flaky = 0
    for fl in sorted(failures, key=lambda f: f["widx"]):
        rep = {"part": fl["part"], "case": fl["case"]}
        # Deterministic checks: the shrunk case must fail 3 times out of 3.  Checks
        # that quantify over OS schedules (C11) declare REPLAY_ANY = n: the case is
        # re-run up to n times and must fail again at least once.
        any_n = getattr(mod, "REPLAY_ANY", 0)
        for p_ in mod.parts(tier):
            if p_.name == fl["part"] and p_.replay_any:
                any_n = p_.replay_any
        if any_n:
            fails = []
            for _ in range(any_n):
                fails.append(replay_once(mod, drv, rep))
                if fails[-1]:
                    break
            confirmed = bool(fails[-1])
        else:
            fails = [replay_once(mod, drv, rep) for _ in range(3)]
            confirmed = all(fails)
        if not confirmed:
            flaky += 1
            print("[%s] non-reproducible failure discarded (harness issue): %s" % (ID, fl["msg"]), flush=True)
            p = write_replay(ID, fl, tier, seed)
            os.rename(p, p.replace(".json", ".flaky.json"))
            continue
        k = match_known(mod, fl["case"], fl["part"], open_known)
        if k:
            if k["id"] not in known_hits:
                print("KNOWN-FINDING: property=%s %s" % (ID, k["what"]), flush=True)
                known_hits.append(k["id"])
            continue
        path = write_replay(ID, fl, tier, seed)
        print("[%s] violation in part %s: %s" % (ID, fl["part"], fl["msg"]), flush=True)
        violations.append((path, fl["msg"]))
        break

    wall = time.time() - t_start
    exhaustive = bool(merged.per_part) and all(v.get("exhaustive") for v in merged.per_part.values())
    ev = {
        "property_id": ID,
        "tier": tier,
        "seed": seed,
        "level": mod.LEVEL,
        "coverage": {
            "evaluations": merged.evaluations,
            "distinct_nontrivial": len(merged.nt),
            "rule": mod.RULE,
            "samples": merged.samples or [],
            "exhaustive": exhaustive,
            "classes": dict(sorted(merged.classes.items())),
            "per_part": merged.per_part,
            "discarded": merged.discarded,
            "excluded_known": merged.excluded_known,
            "truncated": merged.truncated,
            "corpus_replayed": corpus_n,
            "known_findings_reproduced": known_hits,
            "flaky_discarded": flaky,
            "tree_fingerprint": vbuild.tree_fingerprint(),
            "build_variants": list(builds),
        },
        "assumptions": list(getattr(mod, "ASSUMPTIONS", [])),
        "wall_s": round(wall, 2),
        "violations": len(violations),
    }
    ev["coverage"].update(merged.extra)
    if errors:
        ev["coverage"]["harness_errors"] = [e[-1500:] for e in errors[:3]]
    if merged.evaluations == 0:
        # the run stopped at the regression corpus / known-finding stage
        ev["coverage"]["evaluations"] = max(1, corpus_n + len(open_known))
        ev["coverage"]["samples"] = [{"part": "corpus-replay", "case": "violation while replaying the regression corpus: the generated search was not started"}]
    # evidence/ describes /repo; runs against another tree (OVNI_REPO, sensitivity
    # tests) must not overwrite it
    evdir = os.path.join(VERIF, "evidence") if os.path.realpath(vbuild.REPO) == "/repo" else \
        os.environ.get("VERIF_EVIDENCE_DIR", os.path.join(scratch + ".evidence"))
    os.makedirs(evdir, exist_ok=True)
    with open(os.path.join(evdir, ID + ".json"), "w") as f:
        json.dump(ev, f, indent=1, sort_keys=True, default=str)
    print("[%s] evaluations=%d distinct_nontrivial=%d truncated=%s wall=%.1fs" % (
        ID, merged.evaluations, len(merged.nt), merged.truncated, wall), flush=True)
    if merged.classes:
        print("[%s] classes: %s" % (ID, json.dumps(dict(sorted(merged.classes.items())))), flush=True)
    if errors:
        print("[%s] HARNESS ERROR (not a property verdict):\n%s" % (ID, errors[0]), flush=True)
        return 2
    if violations:
        for path, msg in violations:
            print("VIOLATION property=%s replay=%s" % (ID, path), flush=True)
        return 1
    return 0
