"""Compare the emulator's Paraver output with the reference model's snapshots."""
import os
from . import pv, refmodel as R

SUF_RUN = "of the RUNNING thread"
SUF_ACT = "of the ACTIVE thread"


_DOCUMENTED = None


def documented_modes():
    """{type: mode} from the Paraver configurations shipped under cfg/thread (golden/track_modes.json):
    the window name of the view of a type says when its value is shown."""
    global _DOCUMENTED
    if _DOCUMENTED is None:
        import json
        p = os.path.join(os.path.dirname(os.path.dirname(os.path.abspath(__file__))), "golden", "track_modes.json")
        _DOCUMENTED = {int(k): v["mode"] for k, v in json.load(open(p)).items()}
    return _DOCUMENTED


def mode_of(pcf, typ):
    """Tracking mode of a thread quantity: the documented one where a shipped view names it,
    otherwise the one the emulator declares in the type label of the thread .pcf."""
    if typ >= 100 and typ < 200:
        return "ACT"      # C17 statement: marks show while the thread is active
    if typ in documented_modes():
        return documented_modes()[typ]
    lab = pcf.type_label(typ)
    if lab is None:
        return None
    if lab.endswith(SUF_RUN):
        return "RUN"
    if lab.endswith(SUF_ACT):
        return "ACT"
    return "ANY"


def shown(mode, state):
    if mode == "ANY":
        return True
    if mode == "RUN":
        return state == R.ST_RUNNING
    if mode == "ACT":
        return state in R.ACTIVE
    return False


def resolve(pcf, typ, v, probs, what):
    if v is None:
        return 0
    if isinstance(v, tuple) and v[0] == "L":
        n = pcf.value_of(typ, v[1])
        if n is None:
            probs.append("%s: label %r of type %d not declared in pcf" % (what, v[1], typ))
            return -1
        return n
    return v


def compare(model, tracedir, only_types=None, skip_types=(), cpu=True, thread=True, maxprobs=5):
    """Returns list of discrepancies between model.snap and thread.prv/cpu.prv."""
    probs = []
    try:
        tprv = pv.Prv(os.path.join(tracedir, "thread.prv"))
        tpcf = pv.Pcf(os.path.join(tracedir, "thread.pcf"))
        cprv = pv.Prv(os.path.join(tracedir, "cpu.prv"))
        cpcf = pv.Pcf(os.path.join(tracedir, "cpu.pcf"))
    except (pv.PvError, OSError) as e:
        return ["cannot parse output: %s" % e]
    tsteps = tprv.steps()
    csteps = cprv.steps()

    def want(typ):
        if typ in skip_types:
            return False
        return only_types is None or typ in only_types

    modes = {}
    for (t, ths, cps) in model.snap:
        if thread:
            for row, (state, cpurow, tid, pid, raw) in ths.items():
                exp = {4: state, 2: tid if state in R.ACTIVE else 0, 6: cpurow or 0}
                for key, v in raw.items():
                    typ = R.qkey_type(key)
                    if typ is None:
                        continue
                    if typ not in modes:
                        modes[typ] = mode_of(tpcf, typ)
                    md = modes[typ]
                    if md is None:
                        probs.append("thread.pcf does not declare type %d" % typ)
                        continue
                    exp[typ] = resolve(tpcf, typ, v, probs, "thread") if shown(md, state) else 0
                for typ, ev in exp.items():
                    if not want(typ):
                        continue
                    got = pv.value_at(tsteps.get((row, typ), ()), t)
                    if got != ev:
                        probs.append("thread row %d type %d at t=%d: emulator shows %d, model expects %d"
                                     % (row, typ, t, got, ev))
                        if len(probs) >= maxprobs:
                            return probs
        if cpu:
            for row, (nrun, urow, virtual, _ever) in cps.items():
                exp = {3: nrun}
                if urow is not None:
                    (state, cpurow, tid, pid, raw) = ths[urow]
                    exp[2], exp[1] = tid, pid
                else:
                    exp[2], exp[1] = 0, 0
                    raw = None
                # every quantity known for any thread
                keys = next(iter(ths.values()))[4].keys() if ths else ()
                for key in keys:
                    typ = R.qkey_type(key)
                    if typ is None:
                        continue
                    if raw is not None:
                        exp[typ] = resolve(cpcf, typ, raw[key], probs, "cpu")
                    elif typ in R.IDLE_TYPES:
                        exp[typ] = (0, resolve(cpcf, typ, R.L(R.L_RESTING), probs, "cpu"))
                    else:
                        exp[typ] = 0
                for typ, ev in exp.items():
                    if not want(typ):
                        continue
                    got = pv.value_at(csteps.get((row, typ), ()), t)
                    ok = (got in ev) if isinstance(ev, tuple) else (got == ev)
                    if not ok:
                        probs.append("cpu row %d type %d at t=%d: emulator shows %d, model expects %s"
                                     % (row, typ, t, got, ev))
                        if len(probs) >= maxprobs:
                            return probs
    return probs
