"""Run the real tools (ovniemu, ovnidump, ovnitop, ovnisort, ovnievents) and
classify what happened.  No oracle here."""
import os, subprocess, resource, signal
from . import build as _b

ASAN_OPTS = ("detect_leaks=0:allocator_may_return_null=1:exitcode=99:abort_on_error=0:"
             "handle_abort=0:symbolize=1:print_summary=1:detect_stack_use_after_return=0:"
             "max_allocation_size_mb=4096")
UBSAN_OPTS = "halt_on_error=1:exitcode=99:print_stacktrace=1"


class Result:
    __slots__ = ("rc", "sig", "out", "err", "kind", "cmd")

    def __init__(self, rc, sig, out, err, kind, cmd):
        self.rc, self.sig, self.out, self.err, self.kind, self.cmd = rc, sig, out, err, kind, cmd

    @property
    def ok(self):
        return self.kind == "ok"

    @property
    def rejected(self):
        return self.kind == "rejected"

    def finished_ok(self):
        return b"emulation finished ok" in self.err

    def brief(self):
        tail = self.err.decode("latin-1", "replace").strip().splitlines()
        errs = [l for l in tail if "ERROR" in l or "Sanitizer" in l or "SUMMARY" in l]
        return "%s rc=%s sig=%s: %s" % (self.kind, self.rc, self.sig, " | ".join((errs or tail)[:6])[:600])


class HarnessError(Exception):
    pass


def _limits(cpu_s, as_mb, nofile=None):
    def f():
        resource.setrlimit(resource.RLIMIT_CPU, (cpu_s, cpu_s + 1))
        if nofile:
            hard = resource.getrlimit(resource.RLIMIT_NOFILE)[1]
            resource.setrlimit(resource.RLIMIT_NOFILE, (nofile, hard))
        resource.setrlimit(resource.RLIMIT_CORE, (0, 0))
        if as_mb:
            resource.setrlimit(resource.RLIMIT_FSIZE, (as_mb << 20, as_mb << 20))
        os.setsid()
    return f


def run(cmd, cwd=None, env=None, cpu_s=10, wall_s=60, heapbuf=False, stdin=None, fsize_mb=512, nofile=None):
    e = dict(os.environ)
    e["OVNI_CONFIG_DIR"] = os.path.join(_b.REPO, "cfg")
    e["ASAN_OPTIONS"] = ASAN_OPTS
    e["UBSAN_OPTIONS"] = UBSAN_OPTS
    e.pop("OVNI_TMPDIR", None)
    e.pop("OVNI_TRACEDIR", None)
    if heapbuf:
        e["OVNI_VERIF_HEAPBUF"] = "1"
    if env:
        e.update(env)
    try:
        p = subprocess.Popen(cmd, cwd=cwd, env=e, stdin=subprocess.PIPE if stdin is not None else subprocess.DEVNULL,
                             stdout=subprocess.PIPE, stderr=subprocess.PIPE,
                             preexec_fn=_limits(cpu_s, fsize_mb, nofile))
    except OSError as ex:
        # a tool that cannot even be started is a problem of the harness (missing build
        # target), never a verdict on the property
        raise HarnessError("cannot start %s: %s" % (cmd[0], ex))
    try:
        out, err = p.communicate(stdin, timeout=wall_s)
    except subprocess.TimeoutExpired:
        try:
            os.killpg(p.pid, signal.SIGKILL)
        except OSError:
            pass
        out, err = p.communicate()
        return Result(None, None, out, err, "wall-timeout", cmd)
    rc = p.returncode
    if rc < 0:
        sig = -rc
        if sig in (signal.SIGXCPU, signal.SIGKILL):
            kind = "cpu-timeout"
        else:
            kind = "signal"
        return Result(None, sig, out, err, kind, cmd)
    if rc == 0:
        kind = "ok"
    elif rc == 1:
        kind = "rejected"
    elif rc == 99 or b"Sanitizer" in err or b"runtime error:" in err:
        kind = "sanitizer"
    else:
        kind = "exit-%d" % rc
    if kind in ("ok", "rejected") and (b"ERROR: AddressSanitizer" in err or b"runtime error:" in err):
        kind = "sanitizer"
    return Result(rc, None, out, err, kind, cmd)


def emu(b, tracedir, flags=(), **kw):
    return run([b.tool("ovniemu")] + list(flags) + [tracedir], **kw)


def dump(b, tracedir, flags=(), **kw):
    return run([b.tool("ovnidump")] + list(flags) + [tracedir], **kw)


def top(b, tracedir, flags=(), **kw):
    return run([b.tool("ovnitop")] + list(flags) + [tracedir], **kw)


def sort(b, tracedir, flags=(), **kw):
    return run([b.tool("ovnisort")] + list(flags) + [tracedir], **kw)


def events(b, flags=(), **kw):
    return run([b.tool("ovnievents")] + list(flags), **kw)
