"""Independent parsers for Paraver .prv / .pcf / .row files and the
well-formedness predicate of C13."""
import os, re

_HDR = re.compile(r"^#Paraver \([^)]*\):(\d+)_ns:0:1:1\((\d+):1\)$")


class PvError(Exception):
    pass


class Prv:
    def __init__(self, path):
        self.path = path
        with open(path, "r", errors="replace") as f:
            lines = f.read().split("\n")
        if lines and lines[-1] == "":
            lines.pop()
        if not lines:
            raise PvError("%s: empty" % path)
        m = _HDR.match(lines[0])
        if not m:
            raise PvError("%s: bad header %r" % (path, lines[0]))
        self.duration = int(m.group(1))
        self.nrows = int(m.group(2))
        self.records = []  # (row, time, type, value) in file order
        for i, l in enumerate(lines[1:], 2):
            p = l.split(":")
            if len(p) != 8 or p[0] != "2" or p[1] != "0" or p[2] != "1" or p[3] != "1":
                raise PvError("%s:%d: bad record %r" % (path, i, l))
            try:
                row, t, typ, val = int(p[4]), int(p[5]), int(p[6]), int(p[7])
            except ValueError:
                raise PvError("%s:%d: non-numeric record %r" % (path, i, l))
            self.records.append((row, t, typ, val))

    def steps(self):
        """{(row,type): [(time, value), ...]} keeping the last value written per
        timestamp (several events of one stream may share a clock)."""
        d = {}
        for row, t, typ, val in self.records:
            l = d.setdefault((row, typ), [])
            if l and l[-1][0] == t:
                l[-1] = (t, val)
            else:
                l.append((t, val))
        return d

    def types(self):
        return sorted({r[2] for r in self.records})


def value_at(step, t, default=0):
    """Value of a step function [(time, value)...] at time t (after all records
    with time <= t)."""
    v = default
    for tt, vv in step:
        if tt <= t:
            v = vv
        else:
            break
    return v


class Pcf:
    def __init__(self, path):
        self.path = path
        self.types = {}   # id -> (label, {value: label})
        self.dups = []
        with open(path, "r", errors="replace") as f:
            lines = f.read().split("\n")
        i = 0
        n = len(lines)
        while i < n:
            if lines[i] == "EVENT_TYPE":
                i += 1
                m = re.match(r"^0 (\d+)\s*(.*)$", lines[i])
                if not m:
                    raise PvError("%s: bad EVENT_TYPE line %r" % (path, lines[i]))
                tid = int(m.group(1))
                label = m.group(2)
                i += 1
                if lines[i] != "VALUES":
                    raise PvError("%s: missing VALUES after type %d" % (path, tid))
                i += 1
                vals = {}
                while i < n and lines[i] != "":
                    m2 = re.match(r"^(-?\d+)\s(.*)$", lines[i])
                    if not m2:
                        raise PvError("%s: bad value line %r" % (path, lines[i]))
                    v = int(m2.group(1))
                    # "%-4d %s": value padded to 4 then one space then label
                    lab = lines[i][max(4, len(m2.group(1))) + 1:] if len(lines[i]) > 5 else m2.group(2)
                    if v in vals:
                        self.dups.append((tid, v))
                    vals[v] = lab
                    i += 1
                if tid in self.types:
                    self.dups.append((tid, None))
                self.types[tid] = (label, vals)
            else:
                i += 1

    def label(self, typ, value):
        t = self.types.get(typ)
        if not t:
            return None
        return t[1].get(value)

    def type_label(self, typ):
        t = self.types.get(typ)
        return t[0] if t else None

    def value_of(self, typ, label):
        t = self.types.get(typ)
        if not t:
            return None
        for v, l in t[1].items():
            if l == label:
                return v
        return None


class Row:
    def __init__(self, path):
        with open(path, "r", errors="replace") as f:
            lines = f.read().split("\n")
        if lines and lines[-1] == "":
            lines.pop()
        if len(lines) < 4 or lines[0] != "LEVEL NODE SIZE 1" or lines[2] != "":
            raise PvError("%s: bad preamble" % path)
        m = re.match(r"^LEVEL THREAD SIZE (\d+)$", lines[3])
        if not m:
            raise PvError("%s: bad LEVEL THREAD line %r" % (path, lines[3]))
        self.declared = int(m.group(1))
        self.names = lines[4:]


# Types for which "every non-zero value has a label" is asserted (C13 statement:
# thread state, CPU affinity, subsystem, function, idle and task-type timelines;
# breakdown rows show the same value spaces).
LABELLED_TYPES = {4, 6, 7, 13, 37, 30, 20, 50, 25, 45, 39, 16, 40, 11, 36, 17, 41}


def check_wellformed(tracedir, names=("thread", "cpu"), expect_duration=None,
                     expect_rows=None, labelled=LABELLED_TYPES):
    """Returns a list of problems (empty = well-formed).  expect_rows maps
    name -> list of expected row labels (documented order)."""
    probs = []
    for name in names:
        base = os.path.join(tracedir, name)
        try:
            prv = Prv(base + ".prv")
            pcf = Pcf(base + ".pcf")
            row = Row(base + ".row")
        except (PvError, OSError) as e:
            probs.append("%s: %s" % (name, e))
            continue
        last = -1
        for (r, t, typ, val) in prv.records:
            if t < last:
                probs.append("%s.prv: time goes backwards %d -> %d" % (name, last, t))
                break
            last = t
        for (r, t, typ, val) in prv.records:
            if r < 1 or r > prv.nrows:
                probs.append("%s.prv: row %d outside 1..%d" % (name, r, prv.nrows))
                break
        for (r, t, typ, val) in prv.records:
            if t < 0 or t > prv.duration:
                probs.append("%s.prv: record time %d outside header duration %d" % (name, t, prv.duration))
                break
        if expect_duration is not None and prv.duration != expect_duration:
            probs.append("%s.prv: header duration %d != last event time %d" % (name, prv.duration, expect_duration))
        undeclared = sorted({typ for (_, _, typ, _) in prv.records if typ not in pcf.types})
        if undeclared:
            probs.append("%s.prv: types %s not declared in .pcf" % (name, undeclared))
        if pcf.dups:
            probs.append("%s.pcf: duplicate declarations %s" % (name, pcf.dups[:3]))
        for (r, t, typ, val) in prv.records:
            if val != 0 and typ in labelled and typ in pcf.types and pcf.label(typ, val) is None:
                probs.append("%s.prv: value %d of type %d has no label in .pcf" % (name, val, typ))
                break
        if row.declared != prv.nrows:
            probs.append("%s.row: declares %d rows, prv header says %d" % (name, row.declared, prv.nrows))
        if len(row.names) != row.declared:
            probs.append("%s.row: %d names for %d declared rows" % (name, len(row.names), row.declared))
        if expect_rows and name in expect_rows and row.names != expect_rows[name]:
            probs.append("%s.row: names %r != expected %r" % (name, row.names[:8], expect_rows[name][:8]))
    return probs
