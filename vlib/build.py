"""Build variants of bsc-pm/ovni from the *current working tree* of $OVNI_REPO.

Every check calls build(variant) at start; nothing is cached across check
invocations (the tree may have been edited).  Uses the project's own CMake so
source lists and include paths are whatever the tree says.
"""
import os, subprocess, shutil, sys, hashlib

REPO = os.environ.get("OVNI_REPO", "/repo")
VERIF = os.path.dirname(os.path.dirname(os.path.abspath(__file__)))
GUARD = "OVNI_VERIF"

_SAN = ("-fsanitize=address -fsanitize=bounds,null,pointer-overflow,object-size,"
        "vla-bound,unreachable,return -fno-sanitize-recover=all "
        "-fno-omit-frame-pointer -Wno-format-overflow -Wno-error")

VARIANTS = {
    # name: (CC, CFLAGS, linker flags)
    "plain": ("gcc", "-O1 -g -D%s -Wno-error" % GUARD, ""),
    "asan": ("gcc", "-O1 -g -D%s %s" % (GUARD, _SAN), "-fsanitize=address,undefined"),
    "tsan": ("gcc", "-O1 -g -D%s -fsanitize=thread -Wno-error -Wno-tsan" % GUARD, "-fsanitize=thread"),
    "fuzz": ("clang", "-O1 -g -D%s -fsanitize=fuzzer-no-link,address -Wno-error "
             "-Wno-unknown-warning-option -Wno-gnu-zero-variadic-macro-arguments" % GUARD,
             "-fsanitize=address"),
}


class BuildError(Exception):
    pass


class Build:
    def __init__(self, variant, root):
        self.variant = variant
        self.root = root
        self.emu_dir = os.path.join(root, "src", "emu")
        self.rt_dir = os.path.join(root, "src", "rt")
        self.inc = [os.path.join(root, "include"), os.path.join(root, "src"),
                    os.path.join(REPO, "src"), os.path.join(REPO, "src", "include"),
                    os.path.join(REPO, "src", "emu"), os.path.join(REPO, "include")]
        cc, cflags, ldflags = VARIANTS[variant]
        self.cc, self.cflags, self.ldflags = cc, cflags, ldflags

    def tool(self, name):
        return os.path.join(self.emu_dir, name)

    def libs_emu(self):
        return [os.path.join(self.emu_dir, "libemu.a"),
                os.path.join(self.rt_dir, "libovni-static.a"),
                os.path.join(self.root, "src", "libparson-static.a"),
                os.path.join(self.root, "src", "libcommon-static.a")]

    def libs_rt(self):
        return [os.path.join(self.rt_dir, "libovni-static.a"),
                os.path.join(self.root, "src", "libparson-static.a"),
                os.path.join(self.root, "src", "libcommon-static.a")]

    def compile(self, src, out, libs="emu", extra="", cxx=False):
        """Compile a helper from /verif/csrc against this variant's libraries."""
        srcs = src if isinstance(src, (list, tuple)) else [src]
        srcs = [s if os.path.isabs(s) else os.path.join(VERIF, "csrc", s) for s in srcs]
        outp = os.path.join(self.root, out)
        cc = self.cc
        if cxx:
            cc = "clang++" if self.cc == "clang" else "g++"
        cmd = [cc] + self.cflags.split() + ["-D_POSIX_C_SOURCE=200809L", "-D_GNU_SOURCE"]
        for i in self.inc:
            cmd += ["-I", i]
        cmd += extra.split() + srcs
        if libs == "emu":
            cmd += self.libs_emu()
        elif libs == "rt":
            cmd += self.libs_rt()
        cmd += self.ldflags.split() + ["-lpthread", "-lm", "-o", outp]
        r = subprocess.run(cmd, capture_output=True, text=True)
        if r.returncode != 0:
            raise BuildError("compile %s failed:\n%s\n%s" % (src, " ".join(cmd), r.stderr[-4000:]))
        return outp


def build(variant, scratch, targets=None):
    """Configure + build one variant under scratch/<variant>; returns Build."""
    cc, cflags, ldflags = VARIANTS[variant]
    root = os.path.join(scratch, "build-" + variant)
    if os.path.exists(root):
        shutil.rmtree(root)
    env = dict(os.environ)
    env["CC"] = os.path.join(VERIF, "bin", "ccwrap")     # the real compiler without -Werror
    env["VERIF_REAL_CC"] = cc
    cfg = ["cmake", "-G", "Ninja", "-S", REPO, "-B", root, "-DBUILD_TESTING=OFF",
           "-DUSE_MPI=OFF", "-DCMAKE_INTERPROCEDURAL_OPTIMIZATION=OFF",
           "-DCMAKE_BUILD_TYPE=None", "-DOVNI_GIT_COMMIT=verif",
           "-DCMAKE_C_FLAGS=" + cflags,
           "-DCMAKE_EXE_LINKER_FLAGS=" + ldflags,
           "-DCMAKE_SHARED_LINKER_FLAGS=" + ldflags]
    r = subprocess.run(cfg, capture_output=True, text=True, env=env)
    if r.returncode != 0:
        raise BuildError("cmake configure failed (%s):\n%s" % (variant, (r.stdout + r.stderr)[-4000:]))
    cmd = ["cmake", "--build", root, "-j", str(os.cpu_count() or 4)]
    if targets:
        cmd += ["--target"] + list(targets)
    r = subprocess.run(cmd, capture_output=True, text=True, env=env)
    if r.returncode != 0:
        raise BuildError("build failed (%s):\n%s" % (variant, (r.stdout + r.stderr)[-6000:]))
    return Build(variant, root)


def tree_fingerprint():
    """Hash of the working tree sources (for the evidence file)."""
    h = hashlib.sha256()
    for base in ("src", "include", "cfg", "doc/user/emulation/events.md", "CMakeLists.txt"):
        p = os.path.join(REPO, base)
        if os.path.isfile(p):
            h.update(open(p, "rb").read())
            continue
        for d, dn, fn in sorted(os.walk(p)):
            dn.sort()
            for f in sorted(fn):
                fp = os.path.join(d, f)
                h.update(fp.encode())
                try:
                    h.update(open(fp, "rb").read())
                except OSError:
                    pass
    return h.hexdigest()[:16]
