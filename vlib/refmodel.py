"""Reference model of the documented ovni part model (DESIGN Appendix A).

Pure Python, written from the property statements and doc/, not from the C
code paths it checks.  Input: a trace description (vlib.trace format).  Output:
verdict and, for the accepted prefix, the expected value of every (file, row,
type) after every event time.

Values that the emulator prints as numbers whose numbering is not documented
(subsystem states, task-type ids) are carried as ("L", label) and resolved
through the emulator's own .pcf at comparison time, so a change in numbering
with consistent labels is not an alarm, while a label shown under the wrong
event is.
"""
import json, os, struct
from . import trace as T

GOLDEN = os.path.join(os.path.dirname(os.path.dirname(os.path.abspath(__file__))), "golden")

ST_UNKNOWN, ST_RUNNING, ST_PAUSED, ST_DEAD, ST_COOLING, ST_WARMING = 0, 1, 2, 3, 4, 5
ACTIVE = (ST_RUNNING, ST_COOLING, ST_WARMING)
MAX_STACK = 512

MODEL_NAMES = {"O": "ovni", "V": "nosv", "6": "nanos6", "D": "nodes", "M": "mpi",
               "T": "tampi", "P": "openmp", "K": "kernel"}
NAME2CHAR = {v: k for k, v in MODEL_NAMES.items()}

# (model char, quantity name) -> (prv type, kind)
QUANT = {
    ("O", "flush"): (7, "single"),
    ("V", "bodyid"): (15, "single"), ("V", "taskid"): (10, "single"), ("V", "type"): (11, "single"),
    ("V", "appid"): (12, "single"), ("V", "subsystem"): (13, "stack"), ("V", "rank"): (14, "single"),
    ("V", "idle"): (16, "single"),
    ("6", "taskid"): (35, "single"), ("6", "type"): (36, "single"), ("6", "subsystem"): (37, "stack"),
    ("6", "rank"): (38, "single"), ("6", "thread"): (39, "stack"), ("6", "idle"): (40, "single"),
    ("D", "subsystem"): (30, "stack"), ("M", "function"): (25, "stack"), ("T", "subsystem"): (20, "stack"),
    ("P", "subsystem"): (50, "stack"), ("K", "cs"): (45, "stack"),
}
TYPE2Q = {v[0]: k for k, v in QUANT.items()}
IDLE_TYPES = {16, 40}
SUBSYS_Q = {"V": "subsystem", "6": "subsystem", "D": "subsystem", "M": "function",
            "T": "subsystem", "P": "subsystem"}   # lint rule applies to these
L_TASK_BODY = {"V": "Task: In body", "6": "Task: Running body"}
L_PROGRESSING, L_RESTING, L_ABSORBING = "Progressing", "Resting", "Absorbing noise"
IDLE_EVENTS = {"p": L_PROGRESSING, "r": L_RESTING, "a": L_ABSORBING}

# Events with no effect on any timeline (documented as plain notifications).
IGNORED = {"VSr", "VSs", "VS@", "VHa", "VHA", "6W*", "6S@", "6Sr", "6Ss", "6t[", "6t]",
           "PBs", "PBS", "OU[", "OU]", "OCn"}

_regions = None


def regions():
    """mcv -> ("push"|"pop", model, quantity-name, label)"""
    global _regions
    if _regions is None:
        with open(os.path.join(GOLDEN, "regions.json")) as f:
            rows = json.load(f)
        d = {}
        for r in rows:
            if r["type"] is None:
                continue
            q = TYPE2Q[r["type"]]
            d[r["enter"]] = ("push", q[0], q[1], r["label"])
            d[r["leave"]] = ("pop", q[0], q[1], r["label"])
        _regions = d
    return _regions


def region_pairs(model=None):
    with open(os.path.join(GOLDEN, "regions.json")) as f:
        rows = json.load(f)
    return [r for r in rows if r["type"] is not None and (model is None or r["model"] == model)]


class Reject(Exception):
    def __init__(self, stage, why):
        Exception.__init__(self, "%s: %s" % (stage, why))
        self.stage = stage
        self.why = why


def L(label):
    return ("L", label)


# ---------------------------------------------------------------------------
# layout (Appendix A.1)

class Cpu:
    def __init__(self, loom, index, phyid, virtual=False):
        self.loom, self.index, self.phyid, self.virtual = loom, index, phyid, virtual
        self.row = None
        self.threads = []      # bound threads (any live state)
        self.ever_selected = False


class Thread:
    def __init__(self, proc, tid, sidx):
        self.proc, self.tid, self.sidx = proc, tid, sidx
        self.row = None
        self.state = ST_UNKNOWN
        self.cpu = None
        self.out_of_cpu = False
        self.q = {}            # (model, name) -> int | ("L",label) | list(stack) | None
        self.bodies = {"V": [], "6": []}   # per task model: body stack (top last)
        self.flushing = False


class Proc:
    def __init__(self, loom, pid):
        self.loom, self.pid = loom, pid
        self.app = None
        self.rank = None
        self.nranks = None
        self.threads = {}
        self.ttypes = {"V": {}, "6": {}}   # model -> typeid -> label
        self.tasks = {"V": {}, "6": {}}    # model -> taskid -> Task


class Loom:
    def __init__(self, name):
        self.name = name
        self.host = name.split(".")[0]
        self.procs = {}
        self.cpus_by_phy = {}
        self.cpus_by_index = {}
        self.vcpu = Cpu(self, -1, -1, True)
        self.index = None
        self.offset = 0


class Task:
    def __init__(self, tid, typ, flags):
        self.id, self.type, self.flags = tid, typ, flags   # flags: set of "parallel","pause","resurrect","relax"
        self.bodies = {}


class Body:
    def __init__(self, task, bid):
        self.task, self.id = task, bid
        self.state = "created"
        self.thread = None


def build_system(tr):
    """Returns (looms_ordered, threads_ordered, cpus_ordered, by_stream).  Raises
    Reject('load') for metadata the documentation declares invalid."""
    looms = {}
    by_stream = {}
    streams = tr["streams"]
    order = sorted(range(len(streams)), key=lambda i: T.stream_relpath(streams[i]))
    for i in order:
        s = streams[i]
        m = T.default_meta(s) if s.get("raw_json") is None else None
        if m is None:
            try:
                m = json.loads(s["raw_json"])
            except Exception:
                raise Reject("load", "unparsable metadata")
        if not isinstance(m, dict) or m.get("version") != 3:
            raise Reject("load", "bad metadata version")
        o = m.get("ovni")
        if not isinstance(o, dict) or not isinstance(o.get("part"), str):
            raise Reject("load", "missing ovni.part")
        if o["part"] != "thread":
            continue
        lname = o.get("loom")
        if not isinstance(lname, str) or "/" in lname:
            raise Reject("load", "bad ovni.loom")
        loom = looms.get(lname)
        if loom is None:
            loom = looms[lname] = Loom(lname)
        # cpus
        cl = o.get("loom_cpus")
        if cl is not None:
            if not isinstance(cl, list) or len(cl) == 0:
                raise Reject("load", "empty loom_cpus")
            for c in cl:
                if not isinstance(c, dict):
                    raise Reject("load", "bad cpu entry")
                idx, phy = c.get("index"), c.get("phyid")
                if not isinstance(idx, int) or not isinstance(phy, int) or idx < 0 or phy < 0:
                    raise Reject("load", "bad cpu index/phyid")
                a = loom.cpus_by_phy.get(phy)
                b = loom.cpus_by_index.get(idx)
                if a is not None:
                    if a.index != idx:
                        raise Reject("load", "phyid %d bound to two indices" % phy)
                    continue
                if b is not None:
                    raise Reject("load", "index %d bound to two phyids" % idx)
                c_ = Cpu(loom, idx, phy)
                loom.cpus_by_phy[phy] = c_
                loom.cpus_by_index[idx] = c_
        pid = o.get("pid")
        if not isinstance(pid, int) or pid == 0:
            raise Reject("load", "bad pid")
        proc = loom.procs.get(pid)
        if proc is None:
            proc = loom.procs[pid] = Proc(loom, pid)
        if "app_id" in o:
            a = o["app_id"]
            if not isinstance(a, int) or a <= 0:
                raise Reject("load", "bad app_id")
            if proc.app is not None and proc.app != a:
                raise Reject("load", "app_id mismatch in process")
            proc.app = a
        if "rank" in o:
            r = o["rank"]
            if not isinstance(r, int) or r < 0:
                raise Reject("load", "bad rank")
            if proc.rank is not None and proc.rank != r:
                raise Reject("load", "rank mismatch")
            n = o.get("nranks")
            if not isinstance(n, int) or n <= 0:
                raise Reject("load", "bad nranks")
            if proc.nranks is not None and proc.nranks != n:
                raise Reject("load", "nranks mismatch")
            if r >= n:
                raise Reject("load", "rank >= nranks")
            proc.rank, proc.nranks = r, n
        tid = o.get("tid")
        if not isinstance(tid, int) or tid == 0:
            raise Reject("load", "bad tid")
        if tid in proc.threads:
            raise Reject("load", "duplicate tid")
        if o.get("finished") != 1:
            raise Reject("load", "stream not finished")
        if not isinstance(o.get("require"), dict):
            raise Reject("load", "missing require")
        lib = o.get("lib")
        if not isinstance(lib, dict) or not isinstance(lib.get("version"), str) or not isinstance(lib.get("commit"), str):
            raise Reject("load", "missing lib version/commit")
        th = Thread(proc, tid, i)
        th.meta = m
        proc.threads[tid] = th
        by_stream[i] = th
    if not looms:
        raise Reject("load", "no thread streams")
    # ordering
    for lm in looms.values():
        ranked = [p for p in lm.procs.values() if p.rank is not None]
        lm.ranked = bool(ranked)
        if ranked and len(ranked) != len(lm.procs):
            raise Reject("load", "rank on only some processes of loom")
        lm.rank_min = min((p.rank for p in ranked), default=None)
    if all(lm.ranked for lm in looms.values()):
        lo = sorted(looms.values(), key=lambda l: (l.rank_min, l.name))
        sort_by_rank = True
    else:
        lo = sorted(looms.values(), key=lambda l: l.name)
        sort_by_rank = False
    threads, cpus = [], []
    for li, lm in enumerate(lo):
        lm.index = li
        if not lm.cpus_by_phy:
            raise Reject("load", "loom without CPUs")
        n = len(lm.cpus_by_phy)
        if sorted(lm.cpus_by_index) != list(range(n)):
            raise Reject("load", "cpu indices not 0..N-1")
        if lm.ranked:
            po = sorted(lm.procs.values(), key=lambda p: (p.rank, p.pid))
        else:
            po = sorted(lm.procs.values(), key=lambda p: p.pid)
        lm.procs_ordered = po
        for p in po:
            if p.app is None:
                raise Reject("load", "process without app_id")
            for t in sorted(p.threads.values(), key=lambda t: t.tid):
                threads.append(t)
        for c in sorted(lm.cpus_by_phy.values(), key=lambda c: c.phyid):
            cpus.append(c)
        cpus.append(lm.vcpu)
    for i, t in enumerate(threads):
        t.row = i + 1
    for i, c in enumerate(cpus):
        c.row = i + 1
    return lo, threads, cpus, by_stream, sort_by_rank


def row_names(lo, threads, cpus):
    tn = ["TH %d.%d" % (t.proc.app, t.tid) for t in threads]
    cn = []
    for c in cpus:
        if c.virtual:
            cn.append("vCPU %d.*" % c.loom.index)
        else:
            cn.append(" CPU %d.%d" % (c.loom.index, c.phyid))
    return {"thread": tn, "cpu": cn}


# ---------------------------------------------------------------------------

class Model:
    def __init__(self, tr, lint=False, enable_all=False):
        self.tr = tr
        self.lint = lint
        (self.looms, self.threads, self.cpus, self.by_stream, self.sort_by_rank) = build_system(tr)
        self.enabled = {"O"}
        self._load_requires(enable_all)
        self._load_marks()
        self._load_offsets()
        self.snap = []          # [(time, snapshot)]
        self._perm = False
        self.tolerated = []
        self.time0 = None
        self.last_time = None
        self.nevents = 0
        for t in self.threads:
            for (m, name), (typ, kind) in QUANT.items():
                if m in self.enabled:
                    t.q[(m, name)] = [] if kind == "stack" else None
            for m in ("V", "6"):
                if m in self.enabled:
                    t.q[(m, "idle")] = L(L_PROGRESSING)
            for mt, (kind, _, _) in self.marks.items():
                t.q[("O", "mark%d" % mt)] = [] if kind == "stack" else None

    # -- metadata -----------------------------------------------------------
    def _load_requires(self, enable_all):
        have = self.versions()
        for t in self.threads:
            req = t.meta["ovni"]["require"]
            for name, ver in req.items():
                if name not in NAME2CHAR:
                    continue   # unknown model names are not looked at
                if not isinstance(ver, str):
                    continue
                want = parse_version(ver)
                if want is None:
                    raise Reject("load", "bad version string %r" % ver)
                if not compatible(want, have[name]):
                    raise Reject("load", "incompatible %s version %s" % (name, ver))
                self.enabled.add(NAME2CHAR[name])
            if "ovni" not in req:
                pass
        if enable_all:
            self.enabled = set(MODEL_NAMES)

    _versions = None

    @classmethod
    def versions(cls):
        if cls._versions is None:
            from . import evdoc
            models, _ = evdoc.load()
            cls._versions = {name: parse_version(ver) for (_c, (name, ver)) in models.items()}
        return cls._versions

    def _load_marks(self):
        self.marks = {}   # type -> (kind, title, {value: label})
        for t in self.threads:
            mk = t.meta["ovni"].get("mark")
            if mk is None:
                continue
            if not isinstance(mk, dict):
                raise Reject("load", "bad mark object")
            for ts, d in mk.items():
                try:
                    mt = int(ts)
                except ValueError:
                    raise Reject("load", "bad mark type")
                if mt < 0 or mt >= 100 or not isinstance(d, dict):
                    raise Reject("load", "bad mark type")
                title, ct = d.get("title"), d.get("chan_type")
                if not isinstance(title, str) or ct not in ("single", "stack"):
                    raise Reject("load", "bad mark definition")
                cur = self.marks.get(mt)
                if cur is None:
                    cur = self.marks[mt] = (ct, title, {})
                else:
                    if cur[0] != ct or cur[1] != title:
                        raise Reject("load", "mark definition conflict")
                labels = d.get("labels")
                if labels is not None:
                    if not isinstance(labels, dict):
                        raise Reject("load", "bad labels")
                    for vs, lab in labels.items():
                        try:
                            v = int(vs)
                        except ValueError:
                            raise Reject("load", "bad label value")
                        if not isinstance(lab, str):
                            raise Reject("load", "bad label")
                        if v in cur[2] and cur[2][v] != lab:
                            raise Reject("load", "label conflict")
                        cur[2][v] = lab

    def _load_offsets(self):
        offs = self.tr.get("offsets")
        if not offs:
            return
        items = offs.items() if isinstance(offs, dict) else offs
        for host, off in items:
            hit = [l for l in self.looms if l.host == host]
            if not hit:
                raise Reject("load", "offset for unknown host")
            for l in hit:
                l.offset = off

    # -- events ---------------------------------------------------------------
    def corrected(self, sidx, clock):
        return clock + self.by_stream[sidx].proc.loom.offset

    def merged_events(self):
        """Global replay order: corrected clock, ties inside a stream by file
        order.  Cross-stream ties are broken by stream path order (UNSPECIFIED by
        the documentation: verdict-bearing generators avoid such ties)."""
        evs = []
        streams = self.tr["streams"]
        for i, s in enumerate(streams):
            if i not in self.by_stream:
                continue
            for k, e in enumerate(s.get("events", [])):
                evs.append((self.corrected(i, e[1]), T.stream_relpath(s), k, i, e))
        evs.sort(key=lambda x: (x[0], x[1], x[2]))
        return evs

    def run(self):
        """Apply every event.  Returns ("accept", None) or ("reject", info)."""
        # stream-level structure: clocks inside a stream must not decrease
        for i, s in enumerate(self.tr["streams"]):
            last = None
            for e in s.get("events", []):
                if last is not None and e[1] < last:
                    return ("reject", {"stage": "stream", "why": "clock goes backwards in stream"})
                last = e[1]
        n = 0
        for (ct, _p, _k, sidx, e) in self.merged_events():
            try:
                self.apply(sidx, e, ct)
            except Reject as r:
                return ("reject", {"stage": "event", "index": n, "mcv": e[0], "why": r.why})
            n += 1
        try:
            self.finish()
        except Reject as r:
            return ("reject", {"stage": "finish", "why": r.why})
        return ("accept", None)

    def _bad(self, why):
        """A guard of the documented model is violated.  Strict mode: reject.
        Permissive mode (used only by generators to build a plausible
        continuation *after* an illegal event): remember it and let the caller
        apply the event's natural effect."""
        if self._perm:
            self.tolerated.append(why)
            return
        raise Reject("event", why)

    def apply(self, sidx, e, ctime=None, permissive=False):
        self._perm = permissive
        mcv, clock, phex, jumbo = e[0], e[1], e[2], e[3]
        payload = bytes.fromhex(phex)
        th = self.by_stream[sidx]
        if ctime is None:
            ctime = self.corrected(sidx, clock)
        if self.last_time is not None and ctime < self.last_time:
            raise Reject("event", "time goes backwards")
        m = mcv[0]
        if m not in MODEL_NAMES:
            raise Reject("event", "unknown model %r" % m)
        if m not in self.enabled:
            raise Reject("event", "model %s not enabled" % m)
        getattr(self, "_ev_" + {"O": "ovni", "V": "nosv", "6": "nanos6", "K": "kernel"}.get(m, "simple"))(th, mcv, payload, jumbo)
        if self.time0 is None:
            self.time0 = ctime
        self.last_time = ctime
        self.nevents += 1
        self._snapshot(ctime - self.time0)

    def finish(self):
        for t in self.threads:
            if t.state != ST_DEAD:
                raise Reject("finish", "thread %d not dead" % t.tid)
        if self.lint:
            for t in self.threads:
                for m, qn in SUBSYS_Q.items():
                    st = t.q.get((m, qn))
                    if st:
                        raise Reject("finish", "open %s region at end (lint)" % m)

    # -- helpers ------------------------------------------------------------------
    def _cpu(self, loom, index):
        if index == -1:
            return loom.vcpu
        c = loom.cpus_by_index.get(index)
        if c is None:
            raise Reject("event", "no CPU with index %d" % index)
        return c

    def _check_cpu(self, cpu, extra=0):
        """Checked *before* any mutation so that a rejected event leaves the
        model untouched (apply is transactional)."""
        if not cpu.virtual and sum(1 for t in cpu.threads if t.state == ST_RUNNING) + extra > 1:
            self._bad("physical CPU oversubscribed")

    def _push(self, th, key, val, nodup=True):
        st = th.q[key]
        if nodup and st and st[-1] == val:
            raise Reject("unclaimed", "immediate re-entry of %r" % (val,))
        if len(st) >= MAX_STACK:
            raise Reject("event", "stack limit")
        st.append(val)

    def _pop(self, th, key, val):
        st = th.q[key]
        if not st or st[-1] != val:
            self._bad("pop mismatch")
            if st:
                st.pop()
            return
        st.pop()

    # -- ovni model -------------------------------------------------------------
    def _ev_ovni(self, th, mcv, payload, jumbo):
        if th.out_of_cpu:
            self._bad("thread out of CPU")
        c, v = mcv[1], mcv[2]
        if c == "H":
            self._ev_thread(th, v, payload)
        elif c == "A":
            self._ev_affinity(th, v, payload)
        elif c in ("B", "U"):
            return
        elif c == "F":
            if v == "[":
                if th.flushing:
                    self._bad("nested flush")
                th.flushing = True
                th.q[("O", "flush")] = L("Flushing")
            elif v == "]":
                if not th.flushing:
                    self._bad("flush end without begin")
                th.flushing = False
                th.q[("O", "flush")] = None
            else:
                raise Reject("event", "unknown flush event")
        elif c == "M":
            self._ev_mark(th, v, payload)
        elif c == "C" and v == "n":
            return
        else:
            raise Reject("event", "unknown ovni event")

    def _ev_thread(self, th, v, payload):
        s = th.state
        if v == "x":
            if s == ST_DEAD:
                raise Reject("unclaimed", "execute on a dead thread")
            if len(payload) < 4:
                raise Reject("event", "execute without payload")
            (idx,) = struct.unpack_from("<i", payload, 0)
            cpu = self._cpu(th.proc.loom, idx)
            if s != ST_UNKNOWN:
                self._bad("execute: thread already started")
                if th.cpu is not None:
                    th.cpu.threads.remove(th)
                    th.cpu = None
            self._check_cpu(cpu, +1)
            th.cpu = cpu
            th.state = ST_RUNNING
            cpu.threads.append(th)
        elif v == "e":
            if s not in (ST_RUNNING, ST_COOLING):
                if th.cpu is None:
                    raise Reject("event", "end: thread has no CPU")
                self._bad("end: bad state")
            th.state = ST_DEAD
            th.cpu.threads.remove(th)
            th.cpu = None
        elif v == "p":
            if s not in (ST_RUNNING, ST_COOLING):
                if th.cpu is None:
                    raise Reject("event", "pause: thread has no CPU")
                self._bad("pause: bad state")
            th.state = ST_PAUSED
        elif v == "r":
            if s not in (ST_PAUSED, ST_WARMING):
                if th.cpu is None:
                    raise Reject("event", "resume: thread has no CPU")
                self._bad("resume: bad state")
            if s != ST_RUNNING:
                self._check_cpu(th.cpu, +1)
            th.state = ST_RUNNING
        elif v == "c":
            if s != ST_RUNNING:
                if th.cpu is None:
                    raise Reject("event", "cool: thread has no CPU")
                self._bad("cool: bad state")
            th.state = ST_COOLING
        elif v == "w":
            if s != ST_PAUSED:
                if th.cpu is None:
                    raise Reject("event", "warm: thread has no CPU")
                self._bad("warm: bad state")
            th.state = ST_WARMING
        elif v == "C":
            return
        else:
            raise Reject("event", "unknown thread event")

    def _ev_affinity(self, th, v, payload):
        if v == "s":
            if th.cpu is None:
                raise Reject("event", "affinity: no cpu")
            if th.state not in ACTIVE:
                raise Reject("unclaimed", "affinity set by non-active thread")
            if len(payload) != 4:
                raise Reject("event", "affinity payload")
            (idx,) = struct.unpack("<i", payload)
            new = self._cpu(th.proc.loom, idx)
            self._move(th, new)
        elif v == "r":
            if len(payload) != 8:
                raise Reject("event", "affinity payload")
            idx, tid = struct.unpack("<ii", payload)
            tgt = th.proc.threads.get(tid)
            if tgt is None:
                # "search the thread in other processes of the loom if not found in the
                # current one": which one, when several of them have that TID, is not stated
                cands = [p.threads[tid] for p in th.proc.loom.procs_ordered if tid in p.threads]
                if len(cands) > 1:
                    raise Reject("unclaimed", "remote affinity: TID names threads of several other processes")
                tgt = cands[0] if cands else None
            if tgt is None:
                raise Reject("event", "remote affinity: unknown thread")
            if tgt.state in (ST_DEAD, ST_UNKNOWN) or tgt.cpu is None:
                raise Reject("event", "remote affinity: thread not live")
            new = self._cpu(th.proc.loom, idx)
            if new is tgt.cpu:
                raise Reject("unclaimed", "remote affinity onto the same CPU")
            self._move(tgt, new)
        else:
            raise Reject("event", "unknown affinity event")

    def _move(self, th, new):
        if new is th.cpu:
            return
        if th.state == ST_RUNNING:
            self._check_cpu(new, +1)
        th.cpu.threads.remove(th)
        new.threads.append(th)
        th.cpu = new

    def _ev_mark(self, th, v, payload):
        if len(payload) != 12:
            raise Reject("event", "mark payload size")
        value, mt = struct.unpack("<qi", payload)
        mk = self.marks.get(mt)
        if mk is None:
            raise Reject("event", "undefined mark type")
        if value == 0:
            raise Reject("event", "zero mark value")
        key = ("O", "mark%d" % mt)
        if v == "[":
            if mk[0] != "stack":
                raise Reject("event", "push on single mark")
            self._push(th, key, value, nodup=False)
        elif v == "]":
            if mk[0] != "stack":
                raise Reject("event", "pop on single mark")
            self._pop(th, key, value)
        elif v == "=":
            if mk[0] != "single":
                raise Reject("event", "set on stack mark")
            th.q[key] = value
        else:
            raise Reject("event", "unknown mark event")

    # -- table-driven models (nodes, mpi, tampi, openmp) and shared regions -------------
    def _gate(self, th, m):
        if m in ("D", "M", "T", "P"):
            if th.state != ST_RUNNING:
                self._bad("thread not running")
        elif m == "6":
            if th.state not in ACTIVE:
                self._bad("thread not active")
        elif m == "V":
            if th.state not in ACTIVE:
                self._bad("thread not active")
            if th.out_of_cpu:
                self._bad("thread out of CPU")

    def _region(self, th, mcv):
        r = regions().get(mcv)
        if r is None:
            return False
        op, m, qn, label = r
        if op == "push":
            self._push(th, (m, qn), L(label))
        else:
            self._pop(th, (m, qn), L(label))
        return True

    def _ev_simple(self, th, mcv, payload, jumbo):
        self._gate(th, mcv[0])
        if mcv in IGNORED:
            return
        if not self._region(th, mcv):
            raise Reject("event", "unknown event %s" % mcv)

    def _ev_kernel(self, th, mcv, payload, jumbo):
        if mcv == "KCO":
            self._push(th, ("K", "cs"), L(regions()["KCO"][3]))
            th.out_of_cpu = True
        elif mcv == "KCI":
            self._pop(th, ("K", "cs"), L(regions()["KCO"][3]))
            th.out_of_cpu = False
        else:
            raise Reject("event", "unknown kernel event")

    # -- task models ----------------------------------------------------------------
    def _ev_nosv(self, th, mcv, payload, jumbo):
        self._gate(th, "V")
        self._ev_tasky(th, "V", mcv, payload, jumbo)

    def _ev_nanos6(self, th, mcv, payload, jumbo):
        self._gate(th, "6")
        self._ev_tasky(th, "6", mcv, payload, jumbo)

    def _ev_tasky(self, th, m, mcv, payload, jumbo):
        c, v = mcv[1], mcv[2]
        if mcv in IGNORED:
            return
        if c == "P" and v in IDLE_EVENTS:
            new = L(IDLE_EVENTS[v])
            if th.q[(m, "idle")] == new:
                raise Reject("unclaimed", "idle state set twice")
            th.q[(m, "idle")] = new
            return
        if c == "Y":
            if v != "c":
                raise Reject("event", "unknown type event")
            if not jumbo:
                raise Reject("event", "type create must be jumbo")
            if len(payload) < 5:
                raise Reject("unclaimed", "short type payload")
            (gid,) = struct.unpack_from("<I", payload, 0)
            label = payload[4:].split(b"\0")[0].decode("latin-1")
            if gid == 0:
                raise Reject("event", "type id 0")
            types = th.proc.ttypes[m]
            if gid in types:
                raise Reject("event", "duplicate type id")
            types[gid] = label if label else "(unlabeled task type %d)" % gid
            return
        if c == "T":
            self._ev_task(th, m, v, payload)
            return
        if not self._region(th, mcv):
            raise Reject("event", "unknown event %s" % mcv)

    def _ev_task(self, th, m, v, payload):
        proc = th.proc
        tasks = proc.tasks[m]
        if v in ("c", "C"):
            if m == "6" and v == "C":
                return   # legacy, accepted with a warning
            if (m == "6" and len(payload) != 8) or len(payload) < 8:
                raise Reject("event", "task create payload")
            tid, typ = struct.unpack_from("<II", payload, 0)
            if tid in tasks:
                raise Reject("event", "duplicate task id")
            if typ not in proc.ttypes[m]:
                raise Reject("event", "unknown task type")
            if m == "V":
                flags = {"parallel"} if v == "C" else {"pause", "resurrect"}
            else:
                flags = {"pause", "relax"}
            tasks[tid] = Task(tid, typ, flags)
            return
        if v not in ("x", "e", "p", "r"):
            raise Reject("event", "unknown task event")
        if m == "V":
            if len(payload) < 8:
                raise Reject("event", "task payload")
            tid, bid = struct.unpack_from("<II", payload, 0)
        else:
            if len(payload) < 4:
                raise Reject("event", "task payload")
            (tid,) = struct.unpack_from("<I", payload, 0)
            bid = 0
        task = tasks.get(tid)
        if task is None:
            raise Reject("event", "unknown task")
        if m == "V":
            if "parallel" in task.flags:
                if bid == 0:
                    raise Reject("event", "parallel task needs body id > 0")
            else:
                if bid != 0:
                    raise Reject("event", "non-parallel task needs body id 0")
        if tid == 0:
            raise Reject("unclaimed", "task id 0")
        stack = th.bodies[m]
        top = stack[-1] if stack else None
        ssq = (m, "subsystem")
        body_label = L(L_TASK_BODY[m])
        if v == "x":
            body = task.bodies.get(bid)
            if body is None:
                if "parallel" not in task.flags and task.bodies:
                    self._bad("second body of non-parallel task")
                body = Body(task, bid)
                new_body = True
            else:
                new_body = False
            if body.state == "dead":
                if "resurrect" not in task.flags:
                    self._bad("task cannot run again")
            elif body.state != "created":
                raise Reject("event", "execute: body is %s" % body.state)
            if top is not None and top.state == "running" and "relax" not in top.task.flags:
                self._bad("nesting over a running body")
            # subsystem side effect: enters the task body region
            self._push(th, ssq, body_label, nodup=(m == "6"))
            if new_body:
                task.bodies[bid] = body
            body.state = "running"
            body.thread = th
            stack.append(body)
        else:
            body = task.bodies.get(bid)
            if body is None:
                raise Reject("event", "no such body")
            if v == "p":
                if body.state != "running" or body.thread is not th or top is not body:
                    raise Reject("event", "pause: not the running top body of this thread")
                if "pause" not in task.flags:
                    self._bad("task cannot pause")
                body.state = "paused"
            elif v == "r":
                if body.state != "paused" or body.thread is not th or top is not body:
                    raise Reject("event", "resume: not the paused top body of this thread")
                body.state = "running"
            elif v == "e":
                if body.state != "running" or body.thread is not th or top is not body:
                    raise Reject("event", "end: not the running top body of this thread")
                self._pop(th, ssq, body_label)
                body.state = "dead"
                body.thread = None
                stack.pop()
        # task quantities
        run = stack[-1] if stack and stack[-1].state == "running" else None
        if run is None:
            th.q[(m, "taskid")] = None
            th.q[(m, "type")] = None
            if m == "V":
                th.q[(m, "bodyid")] = None
                th.q[(m, "appid")] = None
            th.q[(m, "rank")] = None
        else:
            th.q[(m, "taskid")] = run.task.id
            th.q[(m, "type")] = L(proc.ttypes[m][run.task.type])
            if m == "V":
                th.q[(m, "bodyid")] = run.id if "parallel" in run.task.flags else 1
                th.q[(m, "appid")] = proc.app
            th.q[(m, "rank")] = (proc.rank + 1) if proc.rank is not None else None

    # -- snapshots --------------------------------------------------------------------
    def _snapshot(self, t):
        ths = {}
        for th in self.threads:
            raw = {}
            for k, v in th.q.items():
                if isinstance(v, list):
                    raw[k] = v[-1] if v else None
                else:
                    raw[k] = v
            ths[th.row] = (th.state, th.cpu.row if th.cpu else None, th.tid, th.proc.pid, raw)
        cp = {}
        for c in self.cpus:
            running = [x for x in c.threads if x.state == ST_RUNNING]
            if len(running) == 1:
                c.ever_selected = True
            cp[c.row] = (len(running), running[0].row if len(running) == 1 else None, c.virtual, c.ever_selected)
        if self.snap and self.snap[-1][0] == t:
            self.snap[-1] = (t, ths, cp)
        else:
            self.snap.append((t, ths, cp))


def qkey_type(key, marks=None):
    if key in QUANT:
        return QUANT[key][0]
    if key[0] == "O" and key[1].startswith("mark"):
        return 100 + int(key[1][4:])
    return None


def parse_version(s):
    """MAJOR.MINOR.PATCH with an optional -suffix after the patch."""
    if not isinstance(s, str) or len(s) >= 64:
        return None
    core = s.split("-", 1)[0] if "-" in s else s
    parts = core.split(".")
    if len(parts) != 3:
        return None
    out = []
    for p in parts:
        if not p.isdigit():
            return None
        out.append(int(p))
    return tuple(out)


def compatible(want, have):
    return want[0] == have[0] and want[1] <= have[1]
