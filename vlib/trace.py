"""Build trace directories (stream.json + stream.obs) without libovni.

A trace description is plain JSON-able data so that it can be a Hypothesis
case, a replay file and an evidence sample at once:

  {"streams": [ {"loom": "node.1", "pid": 10, "tid": 11, "app": 1,
                 "cpus": [[index, phyid], ...] | None,
                 "require": {"ovni": "1.1.0", ...},
                 "extra": {dotted-key: value, ...},        # merged into the JSON
                 "rank": [rank, nranks] | None,
                 "path": "loom.node.1/proc.10/thread.11" (optional),
                 "events": [[mcv, clock, payload_hex, jumbo(0/1)], ...],
                 "raw_obs_hex": "..." (optional: literal bytes instead of events),
                 "raw_json": "..." (optional: literal text instead of meta) } ],
   "offsets": {"host": offset, ...} | None,
   "mkorder": [permutation of stream indices] (optional creation order) }
"""
import json, os, struct
from . import obs

LIBVER = "1.11.0"


def P(fmt, *a):
    return struct.pack("<" + fmt, *a).hex()


def ev(mcv, clock, payload_hex="", jumbo=0):
    return [mcv, int(clock), payload_hex, int(jumbo)]


def default_meta(s):
    o = {
        "lib": {"version": LIBVER, "commit": "verif"},
        "part": "thread",
        "tid": s["tid"],
        "pid": s["pid"],
        "loom": s["loom"],
        "require": dict(s.get("require") or {"ovni": "1.1.0"}),
        "finished": 1,
    }
    if s.get("app") is not None:
        o["app_id"] = s["app"]
    if s.get("cpus") is not None:
        o["loom_cpus"] = [{"index": i, "phyid": p} for i, p in s["cpus"]]
    if s.get("rank") is not None:
        o["rank"], o["nranks"] = s["rank"]
    m = {"version": 3, "ovni": o}
    for k, v in (s.get("extra") or {}).items():
        _dotset(m, k, v)
    for k in (s.get("delete") or []):
        _dotdel(m, k)
    return m


def _dotset(m, key, v):
    parts = key.split(".")
    d = m
    for p in parts[:-1]:
        if not isinstance(d.get(p), dict):
            d[p] = {}
        d = d[p]
    d[parts[-1]] = v


def _dotdel(m, key):
    parts = key.split(".")
    d = m
    for p in parts[:-1]:
        d = d.get(p)
        if not isinstance(d, dict):
            return
    d.pop(parts[-1], None)


def stream_relpath(s):
    return s.get("path") or "loom.%s/proc.%d/thread.%d" % (s["loom"], s["pid"], s["tid"])


def events_of(s):
    return [obs.Ev(e[0], e[1], bytes.fromhex(e[2]), bool(e[3])) for e in s.get("events", [])]


def obs_bytes(s):
    if s.get("raw_obs_hex") is not None:
        return bytes.fromhex(s["raw_obs_hex"])
    return obs.encode_stream(events_of(s))


def json_text(s):
    if s.get("raw_json") is not None:
        return s["raw_json"]
    return json.dumps(default_meta(s), indent=1)


def write_trace(tr, root):
    """Materialise the trace under root (created).  Returns root."""
    os.makedirs(root, exist_ok=True)
    # An empty cfg dir makes ovniemu skip copying its 48 config files.
    os.makedirs(os.path.join(root, "cfg"), exist_ok=True)
    streams = tr["streams"]
    order = tr.get("mkorder") or list(range(len(streams)))
    for i in order:
        s = streams[i]
        d = os.path.join(root, stream_relpath(s))
        os.makedirs(d, exist_ok=True)
        jt = json_text(s)
        if not s.get("no_json"):
            with open(os.path.join(d, "stream.json"), "wb") as f:
                f.write(jt.encode("utf-8", "surrogateescape") if isinstance(jt, str) else jt)
        if not s.get("no_obs"):
            with open(os.path.join(d, "stream.obs"), "wb") as f:
                f.write(obs_bytes(s))
    if tr.get("offsets") is not None:
        with open(os.path.join(root, "clock-offsets.txt"), "w") as f:
            f.write("rank       hostname             offset_median      offset_mean      offset_std\n")
            for i, (h, o) in enumerate(tr["offsets"].items() if isinstance(tr["offsets"], dict) else tr["offsets"]):
                f.write("%-10d %-20s %-18d %-16f %-16f\n" % (i, h, o, float(o), 0.0))
    return root


# ---- convenient payload builders (documented shapes, events.md) -------------

def OHx(clock, cpu, tid=-1, tag=0):
    return ev("OHx", clock, P("iiQ", cpu, tid, tag))


def OAs(clock, cpu):
    return ev("OAs", clock, P("i", cpu))


def OAr(clock, cpu, tid):
    return ev("OAr", clock, P("ii", cpu, tid))


def mark(kind, clock, value, typ):
    return ev("OM" + kind, clock, P("qi", value, typ))


def plain(mcv, clock):
    return ev(mcv, clock)


def jumbo(mcv, clock, data):
    return ev(mcv, clock, data.hex() if isinstance(data, (bytes, bytearray)) else data, 1)


def type_create(model, clock, gid, label):
    """?Yc jumbo: u32 id + NUL-terminated label"""
    return jumbo(model + "Yc", clock, struct.pack("<I", gid) + label.encode() + b"\0")
