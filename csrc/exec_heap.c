/* exec_heap: drives src/include/heap.h with the player's comparator shape
 * (min-heap on an int64 key).  No oracle; reports structure facts.
 * stdin: "case" / "i <node> <key>" / "p" / "end"
 * stdout per op: "<popped node|-1> <size> <ok-structure> <count-reachable>" */
#include <stdio.h>
#include <stdlib.h>
#include <string.h>
#include <inttypes.h>
#include "heap.h"

#define MAXN 128
struct item {
	int64_t key;
	int in;
	heap_node_t hh;
};
static struct item items[MAXN];

static inline int
cmp(heap_node_t *a, heap_node_t *b)
{
	struct item *ia = heap_elem(a, struct item, hh);
	struct item *ib = heap_elem(b, struct item, hh);
	/* Return the opposite, so we have min-heap (as player.c) */
	if (ia->key < ib->key)
		return +1;
	else if (ia->key > ib->key)
		return -1;
	else
		return 0;
}

/* Walks the tree: parent/child consistency, heap order, complete-tree shape.
 * Returns number of reachable nodes or -1 on inconsistency. */
static long
walk(heap_node_t *n, heap_node_t *parent, size_t index, size_t size, int *ok)
{
	if (n == NULL)
		return 0;
	if (n->parent != parent)
		*ok = 0;
	if (index > size)
		*ok = 0; /* not a complete tree */
	if (parent != NULL && cmp(parent, n) < 0)
		*ok = 0; /* heap order */
	struct item *it = heap_elem(n, struct item, hh);
	if (it < items || it >= items + MAXN || !it->in)
		*ok = 0;
	long l = walk(n->left, n, index * 2, size, ok);
	long r = walk(n->right, n, index * 2 + 1, size, ok);
	return 1 + l + r;
}

int
main(void)
{
	char line[128];
	heap_head_t head;
	heap_init(&head);
	while (fgets(line, sizeof(line), stdin)) {
		if (strncmp(line, "case", 4) == 0) {
			heap_init(&head);
			memset(items, 0, sizeof(items));
			printf("case\n");
			continue;
		}
		if (strncmp(line, "end", 3) == 0) {
			printf("end\n");
			fflush(stdout);
			continue;
		}
		long popped = -1;
		if (line[0] == 'i') {
			int node;
			long long key;
			if (sscanf(line + 1, "%d %lld", &node, &key) != 2 || node < 0 || node >= MAXN || items[node].in)
				return 3;
			items[node].key = key;
			items[node].in = 1;
			memset(&items[node].hh, 0, sizeof(heap_node_t));
			heap_insert(&head, &items[node].hh, cmp);
		} else if (line[0] == 'p') {
			heap_node_t *n = heap_pop_max(&head, cmp);
			if (n != NULL) {
				struct item *it = heap_elem(n, struct item, hh);
				popped = it - items;
				if (popped >= 0 && popped < MAXN)
					it->in = 0;
			}
		} else {
			return 4;
		}
		int ok = 1;
		long cnt = walk(head.root, NULL, 1, head.size, &ok);
		printf("%ld %zu %d %ld\n", popped, head.size, ok, cnt);
	}
	return 0;
}
