/* vercheck: calls the runtime's version gate.  argv[1] = "check"|"require"|"checkseq", argv[2] = version (checkseq: argv[2..] versions), argv[3] = model
 * exit 0 = returned normally; abort (SIGABRT) = refused by the library. */
#include <pthread.h>
#include <stdio.h>
#include <stdlib.h>
#include <string.h>
#include <unistd.h>
#include "ovni.h"

static int par_rounds, par_nv;
static char **par_v;
static pthread_barrier_t par_bar;

static void *
par_body(void *arg)
{
	long me = (long) arg;
	pthread_barrier_wait(&par_bar);
	for (int r = 0; r < par_rounds; r++)
		ovni_version_check_str(par_v[(r + me) % par_nv]);
	return NULL;
}

int
main(int argc, char *argv[])
{
	if (argc < 3)
		return 2;
	if (strcmp(argv[1], "check") == 0) {
		ovni_version_check_str(strcmp(argv[2], "@NULL") == 0 ? NULL : argv[2]);
		printf("returned\n");
		return 0;
	}
	if (strcmp(argv[1], "checkseq") == 0) {
		/* several checks in one process, each decided on its own: prints "returned <i>" after each */
		for (int i = 2; i < argc; i++) {
			ovni_version_check_str(strcmp(argv[i], "@NULL") == 0 ? NULL : argv[i]);
			printf("returned %d\n", i - 2);
			fflush(stdout);
		}
		return 0;
	}
	if (strcmp(argv[1], "checkpar") == 0) {
		/* argv[2] threads, argv[3] rounds, argv[4..] versions (all compatible): every thread
		 * checks them over and over, all threads at the same time */
		int nth = atoi(argv[2]);
		par_rounds = atoi(argv[3]);
		par_nv = argc - 4;
		par_v = argv + 4;
		pthread_t th[64];
		pthread_barrier_init(&par_bar, NULL, (unsigned) nth);
		for (int i = 0; i < nth && i < 64; i++)
			pthread_create(&th[i], NULL, par_body, (void *) (long) i);
		for (int i = 0; i < nth && i < 64; i++)
			pthread_join(th[i], NULL);
		printf("returned\n");
		return 0;
	}
	if (strcmp(argv[1], "require") == 0) {
		ovni_proc_init(1, "vc.0", 1);
		ovni_thread_init(1);
		ovni_thread_require(argc > 3 ? argv[3] : "nosv", argv[2]);
		printf("returned\n");
		ovni_flush();
		ovni_thread_free();
		ovni_proc_fini();
		return 0;
	}
	if (strcmp(argv[1], "libversion") == 0) {
		const char *v, *c;
		ovni_version_get(&v, &c);
		printf("%s\n", v);
		return 0;
	}
	return 2;
}
