/* vercheck: calls the runtime's version gate.  argv[1] = "check"|"require"|"checkseq", argv[2] = version (checkseq: argv[2..] versions), argv[3] = model
 * exit 0 = returned normally; abort (SIGABRT) = refused by the library. */
#include <stdio.h>
#include <string.h>
#include <unistd.h>
#include "ovni.h"

int
main(int argc, char *argv[])
{
	if (argc < 3)
		return 2;
	if (strcmp(argv[1], "check") == 0) {
		ovni_version_check_str(strcmp(argv[2], "@NULL") == 0 ? NULL : argv[2]);
		printf("returned\n");
		return 0;
	}
	if (strcmp(argv[1], "checkseq") == 0) {
		/* several checks in one process, each decided on its own: prints "returned <i>" after each */
		for (int i = 2; i < argc; i++) {
			ovni_version_check_str(strcmp(argv[i], "@NULL") == 0 ? NULL : argv[i]);
			printf("returned %d\n", i - 2);
			fflush(stdout);
		}
		return 0;
	}
	if (strcmp(argv[1], "require") == 0) {
		ovni_proc_init(1, "vc.0", 1);
		ovni_thread_init(1);
		ovni_thread_require(argc > 3 ? argv[3] : "nosv", argv[2]);
		printf("returned\n");
		ovni_flush();
		ovni_thread_free();
		ovni_proc_fini();
		return 0;
	}
	if (strcmp(argv[1], "libversion") == 0) {
		const char *v, *c;
		ovni_version_get(&v, &c);
		printf("%s\n", v);
		return 0;
	}
	return 2;
}
