/* manythreads: a protocol-conformant libovni program with many short-lived threads (no oracle).
 *
 * usage: manythreads NPROCS NTHREADS NCPUS
 * (OVNI_TRACEDIR names the trace.)  Each of NPROCS forked processes runs NTHREADS threads one
 * after the other; every thread does thread_init, require, (first thread: add_cpu x NCPUS),
 * OHx on CPU (i mod NCPUS), a burst, OHe, flush, thread_free.  Exit status 0 when every call returned. */
#define _GNU_SOURCE
#include <pthread.h>
#include <stdint.h>
#include <stdio.h>
#include <stdlib.h>
#include <string.h>
#include <sys/wait.h>
#include <unistd.h>
#include "ovni.h"

static int ncpus, first_tid, is_first_proc;

static void
emit(const char *mcv, const void *payload, int n)
{
	struct ovni_ev ev = {0};
	ovni_ev_set_clock(&ev, ovni_clock_now());
	ovni_ev_set_mcv(&ev, mcv);
	if (n > 0)
		ovni_payload_add(&ev, payload, n);
	ovni_ev_emit(&ev);
}

static void *
body(void *arg)
{
	int i = (int) (intptr_t) arg;
	ovni_thread_init(first_tid + i);
	ovni_thread_require("ovni", "1.1.0");
	if (i == 0 && is_first_proc) {
		for (int c = 0; c < ncpus; c++)
			ovni_add_cpu(c, c);
	}
	struct { int32_t cpu, tid; uint64_t tag; } __attribute__((packed)) x = { i % ncpus, -1, 0 };
	emit("OHx", &x, sizeof(x));
	emit("OB.", NULL, 0);
	emit("OHe", NULL, 0);
	ovni_flush();
	ovni_thread_free();
	return NULL;
}

int
main(int argc, char *argv[])
{
	if (argc != 4)
		return 2;
	int nprocs = atoi(argv[1]), nthreads = atoi(argv[2]);
	ncpus = atoi(argv[3]);
	for (int p = 0; p < nprocs; p++) {
		pid_t pid = fork();
		if (pid < 0)
			return 2;
		if (pid == 0) {
			first_tid = 100000 * (p + 1);
			is_first_proc = (p == 0);
			ovni_version_check();
			ovni_proc_init(1, "many.0", 1000 + p);
			for (int i = 0; i < nthreads; i++) {
				pthread_t th;
				if (pthread_create(&th, NULL, body, (void *) (intptr_t) i) != 0)
					return 3;
				pthread_join(th, NULL);
			}
			ovni_proc_fini();
			_exit(0);
		}
		int st = 0;
		waitpid(pid, &st, 0);
		if (!WIFEXITED(st) || WEXITSTATUS(st) != 0)
			return 4;
	}
	return 0;
}
