/* exec_task: drives src/emu/task.c + body.c.  No oracle here.
 * stdin:  "case" / "t <id> <flags>" / "x|p|r|e <stack> <task> <body>" / "end"
 * stdout: per op "rc top0 top1" where topN = taskid:bodyid:state or "-" */
#include <stdio.h>
#include <stdlib.h>
#include <string.h>
#include "task.h"
#include "body.h"

static void
print_top(struct task_stack *s)
{
	struct body *b = task_get_top(s);
	if (b == NULL) {
		printf(" -");
		return;
	}
	printf(" %u:%u:%d", task_get_id(body_get_task(b)), body_get_id(b), (int) body_get_state(b));
}

int
main(void)
{
	char line[256];
	struct task_info info;
	struct task_stack stacks[4];
	memset(&info, 0, sizeof(info));
	memset(stacks, 0, sizeof(stacks));
	if (freopen("/dev/null", "w", stderr) == NULL)
		return 2;
	while (fgets(line, sizeof(line), stdin)) {
		if (strncmp(line, "case", 4) == 0) {
			/* leak the previous state on purpose (the emulator never frees) */
			memset(&info, 0, sizeof(info));
			memset(stacks, 0, sizeof(stacks));
			if (task_type_create(&info, 1, "type") != 0)
				return 3;
			printf("case\n");
		} else if (line[0] == 't') {
			unsigned id, flags;
			if (sscanf(line + 1, "%u %u", &id, &flags) != 2)
				return 4;
			int rc = task_create(&info, 1, id, flags);
			printf("%d\n", rc);
		} else if (strncmp(line, "end", 3) == 0) {
			printf("end\n");
			fflush(stdout);
		} else {
			unsigned st, id, body;
			char op = line[0];
			if (sscanf(line + 1, "%u %u %u", &st, &id, &body) != 3 || st >= 4)
				return 5;
			struct task *task = task_find(info.tasks, id);
			int rc;
			if (task == NULL) {
				printf("notask\n");
				continue;
			}
			switch (op) {
			case 'x': rc = task_execute(&stacks[st], task, body); break;
			case 'p': rc = task_pause(&stacks[st], task, body); break;
			case 'r': rc = task_resume(&stacks[st], task, body); break;
			case 'e': rc = task_end(&stacks[st], task, body); break;
			default: return 6;
			}
			printf("%d", rc);
			print_top(&stacks[0]);
			print_top(&stacks[1]);
			printf("\n");
		}
	}
	return 0;
}
