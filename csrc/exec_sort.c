/* exec_sort: sort.c wired to a bay, as the breakdown model uses it.  No oracle.
 * stdin: "case N" / "s <index> <value|null>" / "g" (propagate) / "end"
 * stdout per g: "rc v0 v1 .. | w0 w1 .." (values of outputs; 1 if the output was emitted in this propagation) */
#include <stdio.h>
#include <stdlib.h>
#include <string.h>
#include <inttypes.h>
#include "bay.h"
#include "chan.h"
#include "sort.h"
#include "value.h"

#define MAXN 16
static int written[MAXN];

static int
cb_out(struct chan *chan, void *arg)
{
	(void) chan;
	int *w = arg;
	*w = 1;
	return 0;
}

int
main(void)
{
	char line[256];
	struct bay *bay = NULL;
	struct sort *sort = NULL;
	struct chan *in = NULL;
	int n = 0;
	if (freopen("/dev/null", "w", stderr) == NULL)
		return 2;
	while (fgets(line, sizeof(line), stdin)) {
		if (strncmp(line, "case", 4) == 0) {
			n = atoi(line + 4);
			if (n < 1 || n > MAXN)
				return 3;
			bay = calloc(1, sizeof(*bay));
			sort = calloc(1, sizeof(*sort));
			in = calloc((size_t) n, sizeof(struct chan));
			bay_init(bay);
			for (int i = 0; i < n; i++) {
				chan_init(&in[i], CHAN_SINGLE, "in%d", i);
				chan_prop_set(&in[i], CHAN_DIRTY_WRITE, 1);
				chan_prop_set(&in[i], CHAN_ALLOW_DUP, 1);
				if (bay_register(bay, &in[i]) != 0)
					return 4;
			}
			if (sort_init(sort, bay, n, "sort") != 0)
				return 5;
			for (int i = 0; i < n; i++) {
				if (sort_set_input(sort, i, &in[i]) != 0)
					return 6;
				if (bay_add_cb(bay, BAY_CB_EMIT, sort_get_output(sort, i), cb_out, &written[i], 1) == NULL)
					return 7;
			}
			printf("case\n");
		} else if (line[0] == 's') {
			int idx;
			char val[64];
			if (sscanf(line + 1, "%d %63s", &idx, val) != 2 || idx < 0 || idx >= n)
				return 8;
			struct value v = value_null();
			if (strcmp(val, "null") != 0)
				v = value_int64(strtoll(val, NULL, 10));
			int rc = chan_set(&in[idx], v);
			if (rc != 0)
				printf("seterr\n");
		} else if (line[0] == 'g') {
			memset(written, 0, sizeof(written));
			int rc = bay_propagate(bay);
			printf("%d", rc);
			for (int i = 0; i < n; i++) {
				struct value v;
				if (chan_read(sort_get_output(sort, i), &v) != 0)
					return 9;
				if (v.type == VALUE_NULL)
					printf(" null");
				else
					printf(" %" PRIi64, v.i);
			}
			printf(" |");
			for (int i = 0; i < n; i++)
				printf(" %d", written[i]);
			printf("\n");
		} else if (strncmp(line, "end", 3) == 0) {
			printf("end\n");
			fflush(stdout);
		}
	}
	return 0;
}
