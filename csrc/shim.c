/* LD_PRELOAD shim (no oracle):
 *  SHIM_SHORT=half|one   every write() of more than one byte to an fd >= 3 really
 *                        writes only a prefix (half of it / one byte less) and
 *                        returns that count (a legal short write).
 *  SHIM_PWRITE=<n>       (LD_PRELOAD mode only) every pwrite() writes at most n bytes
 *                        and returns that count.
 *  SHIM_READDIR=<perm>   readdir() on directories returns entries in an order
 *                        derived from the given integer (reverse / rotate / sort)
 *                        so that both "metadata first" and "data first"
 *                        relocation orders occur on any file system. */
#define _GNU_SOURCE
#include <dirent.h>
#include <dlfcn.h>
#include <stdlib.h>
#include <string.h>
#include <unistd.h>

/* Two build modes: LD_PRELOAD library (default) or, with -DSHIM_WRAP, linked
 * into a static executable with -Wl,--wrap=write,--wrap=readdir,--wrap=closedir
 * (static binaries ignore LD_PRELOAD). */
#ifdef SHIM_WRAP
ssize_t __real_write(int, const void *, size_t);
struct dirent *__real_readdir(DIR *);
int __real_closedir(DIR *);
#define write __wrap_write
#define readdir __wrap_readdir
#define closedir __wrap_closedir
#define RESOLVE_WRITE() (real_write = __real_write)
#define RESOLVE_READDIR() (real_readdir = __real_readdir)
#define RESOLVE_CLOSEDIR() (real_closedir = __real_closedir)
#else
#define RESOLVE_WRITE() (real_write = (ssize_t(*)(int, const void *, size_t)) dlsym(RTLD_NEXT, "write"))
#define RESOLVE_READDIR() (real_readdir = (struct dirent * (*) (DIR *) ) dlsym(RTLD_NEXT, "readdir"))
#define RESOLVE_CLOSEDIR() (real_closedir = (int (*)(DIR *)) dlsym(RTLD_NEXT, "closedir"))
#endif

static ssize_t (*real_write)(int, const void *, size_t);

ssize_t
write(int fd, const void *buf, size_t n)
{
	if (!real_write)
		RESOLVE_WRITE();
	const char *m = getenv("SHIM_SHORT");
	if (m != NULL && fd >= 3 && n > 1) {
		size_t k = (m[0] == 'h') ? n / 2 : n - 1;
		if (k == 0)
			k = 1;
		return real_write(fd, buf, k);
	}
	return real_write(fd, buf, n);
}

#define MAXENT 256
struct dstate {
	DIR *dir;
	struct dirent ent[MAXENT];
	int n, pos;
};
static struct dstate ds[8];
static struct dirent *(*real_readdir)(DIR *);
static int (*real_closedir)(DIR *);

static int
cmp_name(const void *a, const void *b)
{
	return strcmp(((const struct dirent *) a)->d_name, ((const struct dirent *) b)->d_name);
}

struct dirent *
readdir(DIR *dir)
{
	if (!real_readdir)
		RESOLVE_READDIR();
	const char *m = getenv("SHIM_READDIR");
	if (m == NULL)
		return real_readdir(dir);
	struct dstate *s = NULL;
	for (int i = 0; i < 8; i++)
		if (ds[i].dir == dir)
			s = &ds[i];
	if (s == NULL) {
		for (int i = 0; i < 8; i++)
			if (ds[i].dir == NULL) {
				s = &ds[i];
				break;
			}
		if (s == NULL)
			return real_readdir(dir);
		s->dir = dir;
		s->n = s->pos = 0;
		struct dirent *e;
		while (s->n < MAXENT && (e = real_readdir(dir)) != NULL)
			s->ent[s->n++] = *e;
		qsort(s->ent, (size_t) s->n, sizeof(struct dirent), cmp_name);
		int perm = atoi(m);
		if (perm & 1) {
			for (int i = 0; i < s->n / 2; i++) {
				struct dirent t = s->ent[i];
				s->ent[i] = s->ent[s->n - 1 - i];
				s->ent[s->n - 1 - i] = t;
			}
		}
	}
	if (s->pos >= s->n)
		return NULL;
	return &s->ent[s->pos++];
}

int
closedir(DIR *dir)
{
	if (!real_closedir)
		RESOLVE_CLOSEDIR();
	for (int i = 0; i < 8; i++)
		if (ds[i].dir == dir)
			ds[i].dir = NULL;
	return real_closedir(dir);
}

#ifndef SHIM_WRAP
ssize_t
pwrite(int fd, const void *buf, size_t n, off_t off)
{
	static ssize_t (*real_pwrite)(int, const void *, size_t, off_t);
	if (!real_pwrite)
		real_pwrite = (ssize_t(*)(int, const void *, size_t, off_t)) dlsym(RTLD_NEXT, "pwrite");
	const char *m = getenv("SHIM_PWRITE");
	if (m != NULL && fd >= 3) {
		size_t cap = (size_t) atol(m);
		if (cap > 0 && n > cap)
			n = cap;
	}
	return real_pwrite(fd, buf, n, off);
}

ssize_t
pwrite64(int fd, const void *buf, size_t n, off_t off)
{
	return pwrite(fd, buf, n, off);
}
#endif
