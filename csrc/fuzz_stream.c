/* fuzz_stream: in-process, coverage-guided target for the stream decoder
 * (stream_load / stream_step / emu_ev / model_event_print).  The semantic
 * oracle is inside the target: the offset must strictly increase and stay
 * inside the stream, the number of steps is bounded by the size, and every
 * payload byte the decoder declares must be readable (ASan + exact-size heap
 * buffer hook). */
#include <fcntl.h>
#include <stdint.h>
#include <stdio.h>
#include <stdlib.h>
#include <string.h>
#include <unistd.h>
#include "ovni.h"
#include "emu_ev.h"
#include "model.h"
#include "models.h"
#include "parson.h"
#include "stream.h"

static char dir[256];
static struct model model;
static int inited = 0;
static int basefd = -1;
volatile uint64_t sink;

static const char meta[] =
	"{\"version\":3,\"ovni\":{\"lib\":{\"version\":\"1.11.0\",\"commit\":\"x\"},\"part\":\"thread\","
	"\"tid\":1,\"pid\":1,\"loom\":\"n.0\",\"app_id\":1,\"require\":{\"ovni\":\"1.1.0\"},\"finished\":1,"
	"\"loom_cpus\":[{\"index\":0,\"phyid\":0}]}}";

static void
init(void)
{
	const char *base = getenv("FUZZ_TMP");
	snprintf(dir, sizeof(dir), "%s/fz.XXXXXX", base ? base : "/dev/shm");
	if (mkdtemp(dir) == NULL)
		abort();
	char p[512];
	snprintf(p, sizeof(p), "%s/stream.json", dir);
	FILE *f = fopen(p, "w");
	fwrite(meta, 1, sizeof(meta) - 1, f);
	fclose(f);
	setenv("OVNI_VERIF_HEAPBUF", "1", 1);
	model_init(&model);
	if (models_register(&model) != 0)
		abort();
	/* the library is chatty on bad input */
	if (freopen("/dev/null", "w", stderr) == NULL)
		abort();
	inited = 1;
}

int
LLVMFuzzerTestOneInput(const uint8_t *data, size_t size)
{
	if (!inited)
		init();
	char p[512];
	snprintf(p, sizeof(p), "%s/stream.obs", dir);
	/* lowest free descriptor now: anything at or above it that is still open
	 * after the iteration was leaked by an error path of stream_load */
	basefd = dup(0);
	close(basefd);
	int fd = open(p, O_WRONLY | O_CREAT | O_TRUNC, 0644);
	if (fd < 0)
		abort();
	size_t off = 0;
	while (off < size) {
		ssize_t w = write(fd, data + off, size - off);
		if (w <= 0)
			abort();
		off += (size_t) w;
	}
	close(fd);

	struct stream *s = calloc(1, sizeof(*s));
	if (stream_load(s, dir, "") == 0) {
		stream_allow_unsorted(s);
		int64_t last = -1;
		uint64_t steps = 0;
		int ret;
		while (s->active && (ret = stream_step(s)) == 0) {
			if (s->offset <= last || s->offset >= s->size)
				__builtin_trap(); /* offset must strictly increase inside the stream */
			last = s->offset;
			if (++steps > size / 12 + 2)
				__builtin_trap(); /* more events than could fit */
			struct emu_ev ev;
			memset(&ev, 0, sizeof(ev));
			emu_ev(&ev, stream_ev(s), 0, 0);
			if (ev.has_payload) {
				uint64_t sum = 0;
				for (size_t i = 0; i < ev.payload_size; i++)
					sum += ev.payload->u8[i];
				sink = sum;
			}
			char buf[1024];
			if (model.registered[ev.m])
				(void) model_event_print(&model, &ev, buf, sizeof(buf));
		}
	}
	free(s->buf); /* heap buffer of the OVNI_VERIF hook (also set on failed loads) */
	if (s->meta != NULL)
		json_value_free(json_object_get_wrapping_value(s->meta));
	free(s);
	/* error paths of stream_load keep descriptors open */
	for (int i = basefd; i < basefd + 4; i++)
		close(i);
	return 0;
}
