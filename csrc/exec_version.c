/* exec_version: drives src/include/version.h.  No oracle.
 * stdin: "c w0 w1 w2 h0 h1 h2" -> "0|1" ; "p <string to end of line>" -> "rc a b c" */
#include <stdio.h>
#include <stdlib.h>
#include <string.h>
#include "version.h"

int
main(void)
{
	char line[512];
	if (freopen("/dev/null", "w", stderr) == NULL)
		return 2;
	while (fgets(line, sizeof(line), stdin)) {
		size_t n = strlen(line);
		if (n > 0 && line[n - 1] == '\n')
			line[n - 1] = '\0';
		if (line[0] == 'c') {
			int w[3], h[3];
			if (sscanf(line + 1, "%d %d %d %d %d %d", &w[0], &w[1], &w[2], &h[0], &h[1], &h[2]) != 6)
				return 3;
			printf("%d\n", version_is_compatible(w, h));
		} else if (line[0] == 'p') {
			int t[3] = { -7, -7, -7 };
			int rc = version_parse(line + 2, t);
			printf("%d %d %d %d\n", rc, t[0], t[1], t[2]);
		}
	}
	return 0;
}
