#define _GNU_SOURCE
#include <ovni.h>
#include <pthread.h>
#include <setjmp.h>
#include <signal.h>
#include <stdio.h>
#include <unistd.h>
#include <stdatomic.h>
static _Thread_local sigjmp_buf jb;
static void onabrt(int s){ (void)s; siglongjmp(jb, 1); }
static pthread_barrier_t bar;
static atomic_int ok, refused;
static void *f(void *a){
  (void)a;
  pthread_barrier_wait(&bar);
  if (sigsetjmp(jb, 1) == 0) { ovni_proc_init(1, "node.1", 4242); atomic_fetch_add(&ok,1); }
  else atomic_fetch_add(&refused,1);
  return NULL;
}
int main(void){
  struct sigaction sa = {0}; sa.sa_handler = onabrt; sigaction(SIGABRT, &sa, NULL);
  enum { N = 8 };
  pthread_t t[N]; pthread_barrier_init(&bar, NULL, N);
  for (int i=0;i<N;i++) pthread_create(&t[i],NULL,f,NULL);
  for (int i=0;i<N;i++) pthread_join(t[i],NULL);
  printf("ok=%d refused=%d\n", ok, refused);
  return 0;
}
