# throwaway: which UNLISTED codes does the emulator accept (no payload / 16-byte payload)?
import os, sys, re, shutil, subprocess, struct, json, html
from mk import *
model=sys.argv[1]
listed=set(html.unescape(x) for x in re.findall(r'<pre>(...)', open('/repo/doc/user/emulation/events.md').read()))
names={'O':'ovni','6':'nanos6','V':'nosv','D':'nodes','T':'tampi','M':'mpi','K':'kernel','P':'openmp'}
vers={'ovni':'1.1.0','nanos6':'1.1.0','nosv':'2.4.0','nodes':'1.0.0','tampi':'1.0.0','mpi':'1.0.0','kernel':'1.0.0','openmp':'1.1.0'}
X=ev('OHx',100,struct.pack('<iiQ',0,-1,0))
d='/dev/shm/p18_'+('%02x'%ord(model))
acc=[]
for c in range(33,127):
  for v in range(33,127):
    mcv=model+chr(c)+chr(v)
    if mcv in listed: continue
    for pay in (b'', b'\1'+b'\0'*15):
        shutil.rmtree(d,ignore_errors=True)
        n=len(pay); e=struct.pack('<B3sQ',0 if n==0 else n-1,mcv.encode('latin1'),150)+pay
        stream(d+'/loom.n.0/proc.10/thread.10',[X,e,ev('OHe',200)],meta(10,10,loom='n.0',cpus=[(0,0)],req=vers))
        os.makedirs(d+'/cfg',exist_ok=True)
        r=subprocess.run(['/repo/_build/src/emu/ovniemu',d],capture_output=True,env=dict(os.environ,OVNI_CONFIG_DIR='/repo/cfg'))
        if r.returncode==0: acc.append((mcv,n)); break
print(model, len(listed), 'accepted-unlisted:', acc[:60], len(acc))
