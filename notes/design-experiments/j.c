#include <ovni.h>
#include <unistd.h>
#include <stdlib.h>
#include <stdio.h>
static uint64_t clk=1000;
static void emit(const char*mcv){struct ovni_ev ev={0};ovni_ev_set_clock(&ev,clk++);ovni_ev_set_mcv(&ev,mcv);ovni_ev_emit(&ev);}
int main(int argc,char**argv){
  long delta = atol(argv[1]);
  ovni_proc_init(1,"node.1",getpid());
  ovni_thread_init(getpid());
  ovni_add_cpu(0,0);
  {struct ovni_ev ev={0};int32_t cpu=0,t=-1;uint64_t tag=0;ovni_ev_set_clock(&ev,clk++);ovni_ev_set_mcv(&ev,"OHx");ovni_payload_add(&ev,(uint8_t*)&cpu,4);ovni_payload_add(&ev,(uint8_t*)&t,4);ovni_payload_add(&ev,(uint8_t*)&tag,8);ovni_ev_emit(&ev);}
  size_t total = OVNI_MAX_EV_BUF - delta; /* totalsize = 16 + bufsize */
  uint32_t bufsize = total-16;
  uint8_t *buf=calloc(1,bufsize);
  struct ovni_ev ev={0};ovni_ev_set_clock(&ev,clk++);ovni_ev_set_mcv(&ev,"OB.");
  ovni_ev_jumbo_emit(&ev,buf,bufsize);
  emit("OB.");
  emit("OHe");
  ovni_flush();
  ovni_thread_free();
  ovni_proc_fini();
  return 0;
}
