from mk import *
import shutil, subprocess
P=lambda *a: struct.pack('<'+'i'*len(a),*a)
name='t10'
shutil.rmtree(name,ignore_errors=True)
X=lambda c,cpu: ev('OHx',c,struct.pack('<iiQ',cpu,-1,0))
req={"ovni":"1.1.0","nosv":"2.4.0"}
m1=meta(10,10,loom='n.0',cpus=[(0,0),(1,1),(2,2)],req=req); m1['nosv']={"can_breakdown":True}
m2=meta(11,10,loom='n.0',req=req); m2['nosv']={"can_breakdown":True}
e1=[X(100,0), jumbo('VYc',105,struct.pack('<I',1)+b'typeA\0'), ev('VTc',106,P(1,1)), ev('VAr',107), ev('VAR',108), ev('VTx',110,P(1,0)), ev('VPr',115), ev('VPp',117), ev('OHp',120), ev('OHr',130), ev('VTe',140,P(1,0)), ev('OHe',200)]
e2=[X(101,1), ev('VSh',103), ev('VSf',150), ev('OHe',190)]
stream(name+'/loom.n.0/proc.10/thread.10',e1,m1)
stream(name+'/loom.n.0/proc.10/thread.11',e2,m2)
os.makedirs(name+'/cfg',exist_ok=True)
r=subprocess.run(['/repo/_build/src/emu/ovniemu','-b','-l',name],capture_output=True,text=True)
print(r.returncode, [l for l in r.stderr.splitlines() if 'ERROR' in l])
print(open(name+'/nosv-breakdown.prv').read()); print(open(name+'/nosv-breakdown.row').read())
