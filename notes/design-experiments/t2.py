from mk import *
import shutil
shutil.rmtree('t2',ignore_errors=True)
# jumbo with size 0xFFFFFFF0 -> ev size 0
bad = struct.pack('<B3sQI', 0x13, b'OB.', 150, 0xFFFFFFF0)
evs=[ev('OHx',100,struct.pack('<iiQ',0,-1,0)), bad, ev('OHe',200)]
stream('t2/loom.node.1/proc.10/thread.10', evs, meta(10,10,cpus=[(0,0)]))
