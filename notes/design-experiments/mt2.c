#define _GNU_SOURCE
#include <ovni.h>
#include <pthread.h>
#include <stdio.h>
#include <stdlib.h>
#include <unistd.h>
static pthread_barrier_t bar;
static void *f(void *a){
  long id=(long)a;
  pthread_barrier_wait(&bar);
  ovni_thread_init(1000+id);
  ovni_thread_require("nosv","2.4.0");
  if(id==0) for(int i=0;i<4;i++) ovni_add_cpu(i,i);
  ovni_mark_type(3, OVNI_MARK_STACK, "m");
  ovni_attr_set_double("test.x",(double)id);
  struct ovni_ev ev={0};int32_t cpu=(int32_t)id,t=-1;uint64_t tag=0;
  ovni_ev_set_clock(&ev,ovni_clock_now());ovni_ev_set_mcv(&ev,"OHx");ovni_payload_add(&ev,(uint8_t*)&cpu,4);ovni_payload_add(&ev,(uint8_t*)&t,4);ovni_payload_add(&ev,(uint8_t*)&tag,8);ovni_ev_emit(&ev);
  uint8_t *buf=calloc(1,1<<20);
  for(int i=0;i<5;i++){ struct ovni_ev j={0}; ovni_ev_set_clock(&j,ovni_clock_now()); ovni_ev_set_mcv(&j,"OB."); ovni_ev_jumbo_emit(&j,buf,1<<20); ovni_mark_push(3,i+1); ovni_mark_pop(3,i+1); }
  struct ovni_ev e={0};ovni_ev_set_clock(&e,ovni_clock_now());ovni_ev_set_mcv(&e,"OHe");ovni_ev_emit(&e);
  ovni_flush(); ovni_thread_free(); free(buf);
  return NULL;
}
int main(void){
  enum{N=4}; pthread_t t[N]; pthread_barrier_init(&bar,NULL,N);
  ovni_version_check(); ovni_proc_init(1,"node.1",getpid());
  for(long i=0;i<N;i++) pthread_create(&t[i],NULL,f,(void*)i);
  for(int i=0;i<N;i++) pthread_join(t[i],NULL);
  ovni_proc_fini(); return 0;
}
