from mk import *
import shutil, subprocess
P=lambda *a: struct.pack('<'+'i'*len(a),*a)
X=lambda c,cpu: ev('OHx',c,struct.pack('<iiQ',cpu,-1,0))
def run(name, evlists, req, lint=True):
    shutil.rmtree(name,ignore_errors=True)
    for i,evs in enumerate(evlists):
        m=meta(10+i,10,loom='n.0',cpus=[(0,0),(1,1),(2,2)] if i==0 else None,req=req)
        stream(name+'/loom.n.0/proc.10/thread.%d'%(10+i),evs,m)
    os.makedirs(name+'/cfg',exist_ok=True)
    r=subprocess.run(['/repo/_build/src/emu/ovniemu']+(['-l'] if lint else [])+[name],capture_output=True,text=True)
    print(name, r.returncode, [l.split('ERROR: ')[1] for l in r.stderr.splitlines() if 'ERROR' in l][:2])
V={"ovni":"1.1.0","nosv":"2.4.0"}; N={"ovni":"1.1.0","nanos6":"1.1.0"}
ty=lambda c,m='V': jumbo(m+'Yc',c,struct.pack('<I',1)+b'tA\0')
# nosv nested: A x, A p, B x, B e, A r, A e
run('n1',[[X(100,0),ty(101),ev('VTc',102,P(1,1)),ev('VTc',103,P(2,1)),ev('VTx',110,P(1,0)),ev('VTp',111,P(1,0)),ev('VTx',112,P(2,0)),ev('VTe',113,P(2,0)),ev('VTr',114,P(1,0)),ev('VTe',115,P(1,0)),ev('OHe',200)]],V)
# nosv nest over running -> reject
run('n2',[[X(100,0),ty(101),ev('VTc',102,P(1,1)),ev('VTc',103,P(2,1)),ev('VTx',110,P(1,0)),ev('VTx',112,P(2,0)),ev('OHe',200)]],V)
# nosv resurrect
run('n3',[[X(100,0),ty(101),ev('VTc',102,P(1,1)),ev('VTx',110,P(1,0)),ev('VTe',111,P(1,0)),ev('VTx',112,P(1,0)),ev('VTe',113,P(1,0)),ev('OHe',200)]],V)
# nosv parallel: two bodies on two threads simultaneously
run('n4',[[X(100,0),ty(101),ev('VTC',102,P(1,1)),ev('VTx',110,P(1,1)),ev('VTe',120,P(1,1)),ev('OHe',200)],[X(104,1),ev('VTx',111,P(1,2)),ev('VTe',119,P(1,2)),ev('OHe',190)]],V)
# nosv same normal task on two threads -> reject
run('n5',[[X(100,0),ty(101),ev('VTc',102,P(1,1)),ev('VTx',110,P(1,0)),ev('VTe',120,P(1,0)),ev('OHe',200)],[X(104,1),ev('VTx',111,P(1,0)),ev('VTe',119,P(1,0)),ev('OHe',190)]],V)
# nosv ends with open task -> lint reject / nolint accept?
run('n6',[[X(100,0),ty(101),ev('VTc',102,P(1,1)),ev('VTx',110,P(1,0)),ev('OHe',200)]],V)
run('n6b',[[X(100,0),ty(101),ev('VTc',102,P(1,1)),ev('VTx',110,P(1,0)),ev('OHe',200)]],V,lint=False)
# nanos6 nesting over running directly -> dup ss?
run('s1',[[X(100,0),ty(101,'6'),ev('6Tc',102,P(1,1)),ev('6Tc',103,P(2,1)),ev('6Tx',110,P(1)),ev('6Tx',112,P(2)),ev('6Te',113,P(2)),ev('6Te',115,P(1)),ev('OHe',200)]],N)
run('s2',[[X(100,0),ty(101,'6'),ev('6Tc',102,P(1,1)),ev('6Tc',103,P(2,1)),ev('6Tx',110,P(1)),ev('6Wt',111),ev('6Tx',112,P(2)),ev('6Te',113,P(2)),ev('6WT',114),ev('6Te',115,P(1)),ev('OHe',200)]],N)
