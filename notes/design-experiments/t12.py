from mk import *
import shutil, subprocess
X=lambda c,cpu: ev('OHx',c,struct.pack('<iiQ',cpu,-1,0))
def dec(blob):
    out=[];o=8
    while o<len(blob):
        f=blob[o]; 
        if f&0x10: n=16+struct.unpack('<I',blob[o+12:o+16])[0]
        else: n=12+((f&0xf)+1 if f&0xf else 0)
        out.append(blob[o:o+n]); o+=n
    return out
clk=lambda e: struct.unpack('<Q',e[4:12])[0]
def run(name,evs,n=None):
    shutil.rmtree(name,ignore_errors=True)
    stream(name+'/loom.n.0/proc.10/thread.10',evs,meta(10,10,loom='n.0',cpus=[(0,0)]))
    os.makedirs(name+'/cfg',exist_ok=True)
    p=name+'/loom.n.0/proc.10/thread.10/stream.obs'
    before=dec(open(p,'rb').read())
    r=subprocess.run(['/repo/_build/src/emu/ovnisort']+(['-n',str(n)] if n else [])+[name],capture_output=True,text=True)
    after=dec(open(p,'rb').read())
    exp=sorted(before,key=clk)  # python sort is stable
    r2=subprocess.run(['/repo/_build/src/emu/ovnisort','-c',name],capture_output=True,text=True)
    r3=subprocess.run(['/repo/_build/src/emu/ovniemu','-l',name],capture_output=True,text=True)
    print(name,'sort',r.returncode,'stable-eq',after==exp,'check',r2.returncode,'emu',r3.returncode,[l for l in r.stderr.splitlines() if 'ERROR' in l][:1])
# backbone 100..; region events with clocks 104,103,104 (unordered, ties with backbone 104 event)
evs=[X(100,0),ev('OB.',102,b'aa'),ev('OB.',104,b'bb'),ev('OB.',104,b'cc'),ev('OB.',106),ev('OU[',110),ev('OB.',104,b'r1'),ev('OB.',103,b'r2'),jumbo('OB.',104,b'r3jumbo'),ev('OB.',109,b'r4'),ev('OU]',111),ev('OB.',112),ev('OHe',200)]
run('s1',evs)
run('s2',evs,n=4)   # look-back too small
run('s3',evs,n=8)
# region at very start sorting before first event
evs2=[ev('OU[',110),ev('OB.',50),ev('OU]',111),X(120,0),ev('OHe',200)]
run('s4',evs2)
