from mk import *
import shutil
shutil.rmtree('t1',ignore_errors=True)
evs=[ev('OHx',100,struct.pack('<iiQ',0,-1,0)), ev('OHe',200)]
stream('t1/loom.node.1/proc.10/thread.10', evs, meta(10,10,cpus=[(1,1),(0,0)]))
