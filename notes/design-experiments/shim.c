#define _GNU_SOURCE
#include <dirent.h>
#include <dlfcn.h>
#include <stdlib.h>
#include <string.h>
#include <stdio.h>
/* Buffer all entries of a DIR on first readdir, return them in reverse/sorted order */
struct st { DIR *d; struct dirent ents[64]; int n, i; };
static struct st S[8];
static struct st *get(DIR *d){ for(int k=0;k<8;k++) if(S[k].d==d) return &S[k]; return NULL; }
static int cmp(const void*a,const void*b){ const struct dirent*x=a,*y=b; int r=strcmp(x->d_name,y->d_name); return getenv("SHIM_REV")? r : -r; }
struct dirent *readdir(DIR *d){
  static struct dirent *(*real)(DIR*);
  if(!real) real=dlsym(RTLD_NEXT,"readdir");
  struct st *s=get(d);
  if(!s){ for(int k=0;k<8;k++) if(!S[k].d){s=&S[k];break;} s->d=d; s->n=0; s->i=0; struct dirent*e; while((e=real(d))&&s->n<64) s->ents[s->n++]=*e; qsort(s->ents,s->n,sizeof(s->ents[0]),cmp); }
  if(s->i<s->n) return &s->ents[s->i++];
  s->d=NULL; return NULL;
}
