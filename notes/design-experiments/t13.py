from mk import *
import shutil, subprocess
name='t13'
shutil.rmtree(name,ignore_errors=True)
def mark(c,v,t=0,k='='): return ev('OM'+k,c,struct.pack('<qi',v,t))
X=lambda c,cpu: ev('OHx',c,struct.pack('<iiQ',cpu,-1,0))
P=lambda *a: struct.pack('<'+'i'*len(a),*a)
m=meta(10,10,loom='n.0',cpus=[(0,0),(1,1)]); m['ovni']['mark']={"0":{"title":"dye","chan_type":"single"}}
evs=[X(100,0),mark(110,5),ev('OHp',120),mark(130,7),ev('OHw',135),mark(136,8),ev('OHr',140),ev('OHc',150),mark(155,9),ev('OAs',156,P(1)),ev('OHp',160),ev('OHr',170),ev('OHe',200)]
stream(name+'/loom.n.0/proc.10/thread.10',evs,m)
os.makedirs(name+'/cfg',exist_ok=True)
r=subprocess.run(['/repo/_build/src/emu/ovniemu','-l',name],capture_output=True,text=True)
print(r.returncode,[l for l in r.stderr.splitlines() if 'ERROR' in l])
for f in ['thread','cpu']:
    print(f, [tuple(map(int,l.split(':')[4:8])) for l in open(name+'/'+f+'.prv').read().splitlines()[1:] if l.split(':')[6] in ('100','4')])
