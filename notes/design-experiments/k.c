#include <ovni.h>
#include <unistd.h>
#include <stdlib.h>
static uint64_t clk=1000;
static void emit(const char*mcv,int pay){struct ovni_ev ev={0};ovni_ev_set_clock(&ev,clk++);ovni_ev_set_mcv(&ev,mcv);uint8_t b[16]={0};if(pay)ovni_payload_add(&ev,b,pay);ovni_ev_emit(&ev);}
int main(void){
  ovni_proc_init(1,"node.1",777);
  ovni_thread_init(777);
  ovni_add_cpu(0,0);
  {struct ovni_ev ev={0};int32_t cpu=0,t=-1;uint64_t tag=0;ovni_ev_set_clock(&ev,clk++);ovni_ev_set_mcv(&ev,"OHx");ovni_payload_add(&ev,(uint8_t*)&cpu,4);ovni_payload_add(&ev,(uint8_t*)&t,4);ovni_payload_add(&ev,(uint8_t*)&tag,8);ovni_ev_emit(&ev);}
  emit("OHe",0);            /* 8+28+12 = 48 */
  emit("OB.",4);            /* 64 */
  for(int i=0;i<336;i++) emit("OB.",0);   /* 64+4032 = 4096 */
  for(int i=0;i<400;i++) emit("OB.",0);   /* more flushed events beyond the first block */
  ovni_flush();
  ovni_thread_free();
  ovni_proc_fini();
  return 0;
}
