import struct, json, os, sys
def ev(mcv, clock, payload=b''):
    n=len(payload)
    flags = 0 if n==0 else (n-1)
    return struct.pack('<B3sQ', flags, mcv.encode(), clock)+payload
def jumbo(mcv, clock, data):
    return struct.pack('<B3sQI', 0x13, mcv.encode(), clock, len(data))+data
def stream(path, events, meta):
    os.makedirs(path, exist_ok=True)
    with open(path+'/stream.obs','wb') as f:
        f.write(b'ovni'+struct.pack('<I',1))
        for e in events: f.write(e)
    with open(path+'/stream.json','w') as f: json.dump(meta,f,indent=1)
def meta(tid,pid,loom='node.1',cpus=None,app=1,req=None,**kw):
    m={"version":3,"ovni":{"lib":{"version":"1.11.0","commit":"x"},"part":"thread","tid":tid,"pid":pid,"loom":loom,"app_id":app,"require":req or {"ovni":"1.1.0"},"finished":1}}
    if cpus is not None: m["ovni"]["loom_cpus"]=[{"index":i,"phyid":p} for i,p in cpus]
    m["ovni"].update(kw)
    return m
