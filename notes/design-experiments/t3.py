from mk import *
import shutil
shutil.rmtree('t3',ignore_errors=True)
evs=[ev('OHx',100), ev('OHe',200)]
stream('t3/loom.node.1/proc.10/thread.10', evs, meta(10,10,cpus=[(0,0)]))
shutil.rmtree('t4',ignore_errors=True)
# stale is_jumbo: jumbo VYc then non-jumbo VYc with 4 byte payload
evs=[ev('OHx',100,struct.pack('<iiQ',0,-1,0)), jumbo('VYc',110,struct.pack('<I',1)+b'type1\0'), ev('VYc',120,struct.pack('<I',7)), ev('OHe',200)]
stream('t4/loom.node.1/proc.10/thread.10', evs, meta(10,10,cpus=[(0,0)],req={"ovni":"1.1.0","nosv":"2.4.0"}))
