from mk import *
import shutil, subprocess
P=lambda *a: struct.pack('<'+'i'*len(a),*a)
name='t9'
shutil.rmtree(name,ignore_errors=True)
def mark(c,v,t=0): return ev('OM=',c,struct.pack('<qi',v,t))
X=lambda c: ev('OHx',c,struct.pack('<iiQ',-1,-1,0))
mk={"0":{"title":"dye","chan_type":"single"}}
mA=meta(10,10,loom='hostA.0',cpus=[(0,0)]); mA['ovni']['mark']=mk
mB=meta(20,20,loom='hostB.0',cpus=[(0,0)]); mB['ovni']['mark']=mk
stream(name+'/loom.hostA.0/proc.10/thread.10',[X(1000),mark(1010,1),mark(1020,2),ev('OHe',1100)],mA)
stream(name+'/loom.hostB.0/proc.20/thread.20',[X(5000),mark(5015,1),mark(5020,2),ev('OHe',5090)],mB)
open(name+'/clock-offsets.txt','w').write("rank hostname offset_median offset_mean offset_std\n0 hostA 0 0 0\n1 hostB -4000 -4000 0\n")
os.makedirs(name+'/cfg',exist_ok=True)
r=subprocess.run(['/repo/_build/src/emu/ovniemu','-l',name],capture_output=True,text=True)
print(r.returncode, [l for l in r.stderr.splitlines() if 'ERROR' in l or 'offset' in l])
print(open(name+'/thread.prv').read())
