from mk import *
import shutil, subprocess, sys
P=lambda *a: struct.pack('<'+'i'*len(a),*a)
def run(name, streams, tool='ovniemu', args=['-l']):
    shutil.rmtree(name,ignore_errors=True)
    for path,evs,m in streams: stream(name+'/'+path, evs, m)
    os.makedirs(name+'/cfg',exist_ok=True)
    r=subprocess.run(['b/src/emu/'+tool]+args+[name],capture_output=True,text=True)
    errs=[l for l in r.stderr.splitlines() if 'ERROR' in l or 'Sanitizer' in l or 'runtime error' in l][:3]
    print(name, tool, 'exit',r.returncode, errs)
X=lambda cpu: ev('OHx',100,struct.pack('<iiQ',cpu,-1,0))
# (a) OAr to same CPU
run('a',[('loom.n.1/proc.10/thread.10',[X(0),ev('OAr',110,P(0,10)),ev('OHe',200)],meta(10,10,loom='n.1',cpus=[(0,0),(1,1)]))])
# (a2) OAr to other CPU
run('a2',[('loom.n.1/proc.10/thread.10',[X(0),ev('OAr',110,P(1,10)),ev('OHe',200)],meta(10,10,loom='n.1',cpus=[(0,0),(1,1)]))])
# (d) execute after dead
run('d',[('loom.n.1/proc.10/thread.10',[X(0),ev('OHe',110),ev('OHx',120,struct.pack('<iiQ',0,-1,0)),ev('OHe',200)],meta(10,10,loom='n.1',cpus=[(0,0),(1,1)]))])
# (e) short jumbo VYc
m=meta(10,10,loom='n.1',cpus=[(0,0)],req={"ovni":"1.1.0","nosv":"2.4.0"})
run('e',[('loom.n.1/proc.10/thread.10',[X(0),jumbo('VYc',110,b'\x01'),ev('OHe',200)],m)])
run('e2',[('loom.n.1/proc.10/thread.10',[X(0),ev('OHe',200),jumbo('VYc',210,struct.pack('<I',1)+b'AAAA')],m)])
run('e2',[('loom.n.1/proc.10/thread.10',[X(0),ev('OHe',200),jumbo('VYc',210,struct.pack('<I',1)+b'AAAA')],m)],tool='ovnidump',args=[])
