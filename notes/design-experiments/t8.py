from mk import *
import shutil, subprocess
P=lambda *a: struct.pack('<'+'i'*len(a),*a)
name='pg'
shutil.rmtree(name,ignore_errors=True)
evs=[ev('OHx',100,struct.pack('<iiQ',0,-1,0))]
# fill with 12-byte bursts up to 4096-6, then a 6-byte fragment of a jumbo header
evs.append(ev('OB.',100,b'abc')); n=8+28+15
c=101
while n+12 <= 4096-6:
    evs.append(ev('OB.',c)); c+=1; n+=12
rem=4096-n
frag=struct.pack('<B3sQI',0x13,b'OB.',c,5)[:rem]
evs.append(frag)
stream(name+'/loom.n.1/proc.10/thread.10',evs,meta(10,10,loom='n.1',cpus=[(0,0)]))
os.makedirs(name+'/cfg',exist_ok=True)
print(os.path.getsize(name+'/loom.n.1/proc.10/thread.10/stream.obs'), rem)
for tool,args in [('ovniemu',['-l']),('ovnidump',[]),('ovnisort',[]),('ovnitop',[])]:
    r=subprocess.run(['/repo/_build/src/emu/'+tool]+args+[name],capture_output=True,text=True)
    print(tool,r.returncode,[l for l in r.stderr.splitlines() if 'ERROR' in l][:2])
