# throwaway exploratory probe (NOT framework code): random structure-aware corruptions of valid traces
import os, sys, random, shutil, subprocess, struct, json, re, collections
from mk import *
random.seed(int(sys.argv[1])); N=int(sys.argv[2]); wid=sys.argv[1]
P=lambda *a: struct.pack('<'+'i'*len(a),*a)
X=lambda c,cpu: ev('OHx',c,struct.pack('<iiQ',cpu,-1,0))
def base():
    req={"ovni":"1.1.0","nosv":"2.4.0","nanos6":"1.1.0","mpi":"1.0.0","kernel":"1.0.0"}
    m1=meta(10,10,loom='n.0',cpus=[(0,0),(1,1)],req=req); m1['ovni']['mark']={"1":{"title":"t","chan_type":"stack","labels":{"5":"five"}}}
    m2=meta(11,10,loom='n.0',req=req)
    e1=[X(100,0), jumbo('VYc',105,struct.pack('<I',1)+b'typeA\0'), ev('VTc',106,P(1,1)), ev('VAr',107), ev('VAR',108), ev('VTx',110,P(1,0)),
        ev('OM[',111,struct.pack('<qi',5,1)), ev('OM]',112,struct.pack('<qi',5,1)), ev('OF[',113), ev('OF]',114), ev('MS[',115), ev('MS]',116),
        ev('OHp',120), ev('OHr',130), ev('OU[',131), ev('KCO',132), ev('KCI',133), ev('OU]',134), ev('VTe',140,P(1,0)), ev('OAs',150,P(1)), ev('OHe',200)]
    e2=[X(101,1), ev('OAr',102,P(-1,11)), jumbo('6Yc',103,struct.pack('<I',1)+b'tB\0'), ev('6Tc',104,P(1,1)), ev('6Tx',105,P(1)), ev('6Te',106,P(1)), ev('OHC',107,struct.pack('<iQ',0,7)), ev('OHe',190)]
    return [('loom.n.0/proc.10/thread.10',e1,m1),('loom.n.0/proc.10/thread.11',e2,m2)]
MCVS=['OHx','OHe','OHp','OAs','OAr','OHC','OM[','OM=','OCn','VTx','VTc','VYc','6Yc','6Tc','6Tx','MS[','KCO','OF[','OB.','OU[','ZZZ','V??']
def mutate(streams):
    s=random.randrange(len(streams)); path,evs,m=streams[s]; evs=list(evs); m=json.loads(json.dumps(m))
    kind=random.choice(['flags','jsize','trunc','mcv','paylen','clock','json','json','pad4096','dropnul'])
    i=random.randrange(len(evs)); b=bytearray(evs[i])
    if kind=='flags': b[0]=random.randrange(256)
    elif kind=='jsize':
        b[0]=0x13; b=b[:12]+struct.pack('<I',random.choice([0,1,3,4,5,8,100,0x7fffffff,0x80000000,0xfffffff0,0xfffffff4,0xffffffff]))+b[16:]
    elif kind=='mcv': b[1:4]=random.choice(MCVS).encode()
    elif kind=='paylen':
        n=random.choice([0,2,3,4,7,8,12,16]); b=bytearray(struct.pack('<B3sQ',0 if n==0 else n-1,bytes(b[1:4]),struct.unpack('<Q',b[4:12])[0])+os.urandom(n))
    elif kind=='clock': b[4:12]=struct.pack('<Q',random.choice([0,1,2**63-1,2**63,2**64-1]))
    elif kind=='dropnul': evs.append(jumbo(random.choice(['VYc','6Yc']),300,struct.pack('<I',9)+b'AAAAAAAA')); b=bytearray(evs[i])
    evs[i]=bytes(b)
    blob=b'ovni'+struct.pack('<I',1)+b''.join(evs)
    if kind=='trunc': blob=blob[:random.randrange(len(blob))]
    if kind=='pad4096':
        # pad with bursts so that a cut jumbo header lands on the page end
        body=blob
        while len(body)+12 <= 4096-random.choice([1,5,11,13,15]): body+=ev('OB.',250)
        blob=(body+struct.pack('<B3sQI',0x13,b'OB.',260,5))[:4096]
    if kind=='json':
        o=m['ovni']; k=random.choice(['tid','pid','loom','app_id','require','loom_cpus','finished','part','mark','lib','version','rank','cpus_rev','cpus_dup'])
        v=random.choice([None,0,-1,1e300,2**40,"x","",[],{},True,[1,2],{"a":{"b":1}},"a/b","9"*300])
        if k=='version': m['version']=v
        elif k=='rank': o['rank']=v; o['nranks']=random.choice([v,4])
        elif k=='cpus_rev' and 'loom_cpus' in o: o['loom_cpus']=o['loom_cpus'][::-1]
        elif k=='cpus_dup' and 'loom_cpus' in o: o['loom_cpus'].append({"index":random.choice([0,1,5,-1]),"phyid":random.choice([0,1,7,-1])})
        elif k=='loom_cpus': o[k]=random.choice([v,[{"index":v,"phyid":0}],[{"index":0}],[5]])
        elif k=='mark': o[k]=random.choice([v,{"1":v},{"x":{"title":"t","chan_type":"stack"}},{"1":{"title":v,"chan_type":"stack"}},{"1":{"title":"t","chan_type":"single","labels":v}},{"1":{"title":"t","chan_type":"stack","labels":{"q":"x"}}},{"1":{"title":"t","chan_type":"stack","labels":{"1":v}}}])
        elif k=='require': o[k]=random.choice([v,{"ovni":v},{"ovni":"1.1.0","nosv":v}])
        else: o[k]=v
    out=list(streams); out[s]=(path,[blob],m); return out,kind
sig=collections.Counter(); ex={}
for it in range(N):
    d='/dev/shm/probe%s'%wid; shutil.rmtree(d,ignore_errors=True)
    ms,kind=mutate(base())
    for path,evs,m in ms:
        os.makedirs(d+'/'+path,exist_ok=True)
        blob=evs[0] if len(evs)==1 and evs[0][:4]==b'ovni' else b'ovni'+struct.pack('<I',1)+b''.join(evs)
        open(d+'/'+path+'/stream.obs','wb').write(blob)
        open(d+'/'+path+'/stream.json','w').write(json.dumps(m))
    os.makedirs(d+'/cfg',exist_ok=True)
    for tool,args in [('ovniemu',['-l']),('ovnidump',[]),('ovnitop',[]),('ovnisort',['-c'])]:
        env=dict(os.environ,ASAN_OPTIONS='detect_leaks=0:allocator_may_return_null=1:exitcode=99',OVNI_CONFIG_DIR='/repo/cfg')
        try:
            r=subprocess.run(['b/src/emu/'+tool]+args+[d],capture_output=True,timeout=5,env=env)
            rc=r.returncode; err=r.stderr.decode(errors='replace')
        except subprocess.TimeoutExpired:
            rc='HANG'; err=''
        if rc in (0,1): continue
        m_=re.search(r'#0 \S+ in (\S+) (\S+)',err) ; m2=re.search(r'SUMMARY: \S+ (\S+)',err); f=re.search(r'FATAL: (\w+)',err)
        key=(tool,str(rc),(m2.group(1) if m2 else ''),(m_.group(1)+' '+os.path.basename(m_.group(2)) if m_ else (f.group(1) if f else '')))
        sig[key]+=1
        if key not in ex: ex[key]=kind
for k,v in sorted(sig.items(),key=lambda x:-x[1]): print(v,k,ex[k])
