import os, sys, json
from hypothesis import given, settings, seed, strategies as st, Phase, HealthCheck, event
S=int(os.environ.get('VERIF_SEED','0'))
seen=[]
@seed(S)
@settings(max_examples=200, database=None, deadline=None, derandomize=False, report_multiple_bugs=False,
          phases=(Phase.generate, Phase.shrink), suppress_health_check=list(HealthCheck))
@given(st.data())
def t(data):
    n=data.draw(st.integers(0,5))
    xs=[data.draw(st.sampled_from('xprcwe')) for _ in range(n)]
    seen.append(''.join(xs))
    assert 'wwe' not in ''.join(xs)
try:
    t()
    print('pass', len(seen), seen[:5])
except AssertionError as e:
    print('fail; last (shrunk) example:', seen[-1], 'n', len(seen))
