"""C13 — Paraver output is well-formed and self-consistent (DESIGN section 4, C13)."""
import os
from hypothesis import strategies as st
from vlib.runner import Part, Violation
from vlib import gen, refmodel as R, pv, tools
from checks.common import hist_run, mcvs

ID = "C13"
VARIANTS = ["plain"]
TARGETS = ["ovniemu"]
LEVEL = "exploration"
RULE = ("accepted traces over all eight models, 1-3 looms, 1-3 processes per loom, 1-3 threads per process, "
        "1-4 CPUs per loom with non-contiguous physical ids, with and without MPI ranks, user marks, with and "
        "without -b; every generated .prv/.pcf/.row (thread, cpu, *-breakdown) is parsed independently: header "
        "syntax, timestamps non-decreasing, rows within 1..n, header duration = corrected time of the last input "
        "event minus the first, every type used declared in the .pcf, every non-zero value of the emulator-defined "
        "state types labelled, .row declares n and lists n names in the documented order (computed by the "
        "reference layout); every third accepted trace is emulated a second time into the same directory after the output files were made longer with stale content, and checked again.  Non-trivial = >= 2 threads and (>= 2 models or >= 2 looms); distinct = trace.")
ASSUMPTIONS = ["only accepted traces are examined (rejected ones are counted and skipped)",
               "row order is the documented one: looms by name or minimum rank, processes by rank or pid, threads by tid, CPUs by phyid, vCPU last"]


def models_draw(draw):
    return draw(st.lists(st.sampled_from(gen.ALL_MODELS), unique=True, min_size=0, max_size=4))


def mkprof(breakdown):
    return gen.Profile(kinds=["region"] * 3 + ["task"] * 2 + ["idle", "mark", "flush", "kernel", "noeffect"]
                       + ["state"] * 2 + ["affinity"],
                       models=models_draw, max_looms=3, max_procs=3, max_threads=3, max_cpus=4,
                       steps=(5, 60), modes=("legal",), lint=None, marks=2, ranks=True,
                       breakdown=breakdown, flags=["-b"] if breakdown else None)


PROF_T = gen.Profile(kinds=["task"] * 7 + ["region", "state", "idle"],
                     models=lambda draw: [draw(st.sampled_from(["V", "6"]))] + draw(st.lists(st.sampled_from(["M", "K", "P"]), unique=True, max_size=1)),
                     max_looms=2, max_procs=3, max_threads=2, max_cpus=3, steps=(15, 90), modes=("legal",), lint=None,
                     ranks=True)
PROF_A = mkprof(False)
PROF_ALL = mkprof(False)          # the same with every model forced on (-a)
PROF_ALL.extra_flags = ("-a",)
PROF_B = mkprof(True)
PROF_B.no_bare_pause = False


ctx_b = [None]


def extra(case):
    def f(model, d, r):
        names = []
        if "-b" in case.get("_flags", []):
            if "V" in case.get("_models", []):
                names.append("nosv-breakdown")
            if "6" in case.get("_models", []):
                names.append("nanos6-breakdown")
        for n in names:
            if not os.path.exists(os.path.join(d, n + ".prv")):
                raise Violation("-b given but %s.prv was not produced" % n)
        if names:
            nphy = len([c for c in model.cpus if not c.virtual])
            rows = {n: ["~CPU %4d" % (nphy - i) for i in range(nphy)] for n in names}
            wp = pv.check_wellformed(d, names=tuple(names), expect_duration=model.snap[-1][0] if model.snap else 0,
                                     expect_rows=rows)
            if wp:
                raise Violation("malformed breakdown output: " + "; ".join(wp[:3]))
        # The trace directory may already hold the output of an earlier (longer) emulation:
        # every third case leaves stale, longer files in place and emulates again; what the
        # emulator generates now must be well-formed just the same.
        if sum(len(s_["events"]) for s_ in case["streams"]) % 3 == 0:
            stale = 0
            for fn in sorted(os.listdir(d)):
                if fn.endswith((".prv", ".pcf", ".row")):
                    p = os.path.join(d, fn)
                    body = open(p, "rb").read()
                    with open(p, "ab") as fh:
                        fh.write(body[-3000:] + b"2:1:1:1:1:99999999999:4:1\n2:1:1:1:1:999")
                    stale += 1
            r2 = tools.emu(ctx_b[0], d, tuple(case.get("_flags", ["-l"])))
            if not r2.ok:
                raise Violation("second emulation into the same directory fails: %s" % r2.brief())
            exp_dur = model.snap[-1][0] if model.snap else 0
            wp = pv.check_wellformed(d, expect_duration=exp_dur, expect_rows=R.row_names(model.looms, model.threads, model.cpus))
            if names:
                wp += pv.check_wellformed(d, names=tuple(names), expect_duration=exp_dur, expect_rows=rows)
            if wp:
                raise Violation("malformed Paraver output when the directory held %d older, longer output files: %s" % (stale, "; ".join(wp[:3])))
    return f


def nt(case, res):
    if res["verdict"] != "accept":
        return False
    looms = {s["loom"] for s in case["streams"]}
    return len(case["streams"]) >= 2 and (len(case.get("_models", [])) >= 2 or len(looms) >= 2)


def classes(case, res):
    out = ["looms:%d" % len({s["loom"] for s in case["streams"]}), "nmodels:%d" % len(case.get("_models", []))]
    if any(s.get("rank") for s in case["streams"]):
        out.append("ranked")
    if "-b" in case.get("_flags", []):
        out.append("breakdown")
    return out


def run(case, ctx):
    ctx_b[0] = ctx.b(None)
    try:
        return hist_run(case, ctx, nt=nt, wellformed=True, extra_cls=classes, extra_check=extra(case))
    except Violation as v:
        if "collision occurred" in str(v):
            return {"discard": True, "cls": ["label-hash-collision"]}
        raise


def parts(tier):
    return [
        Part("accepted-traces", run, strategy=lambda ctx: gen.history(PROF_A), budget={"quick": 3500, "thorough": 45000}),
        Part("accepted-traces-tasks", run, strategy=lambda ctx: gen.history(PROF_T), budget={"quick": 2500, "thorough": 30000}),
        Part("accepted-traces-breakdown", run, strategy=lambda ctx: gen.history(PROF_B), budget={"quick": 1500, "thorough": 20000}),
        Part("accepted-traces-all-models-forced", run, strategy=lambda ctx: gen.history(PROF_ALL), budget={"quick": 1200, "thorough": 15000}),
    ]
