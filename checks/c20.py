"""C20 — breakdown rows hold the sorted per-CPU breakdown values (DESIGN section 4, C20)."""
import itertools, os, subprocess
from hypothesis import strategies as st
from vlib.runner import Part, Violation
from vlib import gen, refmodel as R, pv, compare
from checks.common import hist_run, mcvs

ID = "C20"
VARIANTS = ["plain"]
TARGETS = ["ovniemu", "emu"]
LEVEL = "exploration"
RULE = ("(a) sort module in process (sort.c wired to a bay): n = 1..4 inputs, every sequence of up to L "
        "single-input updates with values in {null,1,2,3} (exhaustive), random longer sequences with wide "
        "values and several inputs updated in one propagation; oracle after each propagation: outputs = sorted "
        "multiset of inputs (null as 0) and the outputs emitted in that propagation = the positions whose value "
        "changed.  (b) end-to-end ovniemu -b for nOS-V and Nanos6 with 1-4 physical CPUs: threads running task "
        "bodies, subsystems, idle states, pauses and migrations; oracle: per-CPU breakdown value recomputed by the "
        "reference model, sorted multiset compared with rows 1..n of *-breakdown.prv after every event time, rows "
        "non-decreasing.  Non-trivial (b) = >= 2 CPUs holding different non-zero values at once; distinct = history.")
ASSUMPTIONS = ["a CPU on which no thread has run yet contributes 0 (observed at the pinned commit; the statement does not say)",
               "breakdown value while a task is paused directly under the body region is the subsystem ('otherwise the subsystem')"]

BTYPE = {"V": (17, "nosv-breakdown"), "6": (41, "nanos6-breakdown")}


def setup(ctx):
    return {"exec_sort": ctx.b("plain").compile("exec_sort.c", "exec_sort", libs="emu")}


# ---- (a) sort module ---------------------------------------------------------

def run_sort(case, ctx):
    n = case["n"]
    lines = ["case %d" % n]
    for grp in case["ops"]:
        for (i, v) in grp:
            lines.append("s %d %s" % (i, "null" if v is None else v))
        lines.append("g")
    lines.append("end")
    r = subprocess.run([ctx.shared["exec_sort"]], input="\n".join(lines) + "\n", capture_output=True, text=True)
    if r.returncode != 0:
        raise Violation("exec_sort died rc=%d on %s" % (r.returncode, case))
    out = [l for l in r.stdout.split("\n") if l and l not in ("case", "end")]
    if len(out) != len(case["ops"]):
        raise Violation("exec_sort output mismatch: %r" % r.stdout[:300])
    inputs = [0] * n
    prev = [None] * n
    moved = False
    for grp, line in zip(case["ops"], out):
        left, right = line.split("|")
        f = left.split()
        if f[0] != "0":
            raise Violation("propagation failed after %s in %s" % (grp, case))
        got = [None if x == "null" else int(x) for x in f[1:]]
        wr = [int(x) for x in right.split()]
        changed = False
        for (i, v) in grp:
            nv = 0 if v is None else v
            if inputs[i] != nv:
                changed = True
            inputs[i] = nv
        exp = sorted(inputs)
        gotn = [0 if g is None else g for g in got]
        if gotn != exp:
            raise Violation("sort outputs %s != sorted inputs %s after %s (case %s)" % (got, exp, grp, case))
        for k in range(n):
            pv_ = 0 if prev[k] is None else prev[k]
            if pv_ != exp[k] and not wr[k]:
                raise Violation("output %d changed %s->%s but was not emitted (case %s)" % (k, prev[k], exp[k], case))
            # "updates only the rows needed" is stated for a change of ONE CPU's
            # value; with several inputs changing in one propagation an output may
            # be touched and restored (the PRV layer skips the duplicate).
            if len(grp) == 1 and wr[k] and pv_ == exp[k] and prev[k] is not None:
                raise Violation("output %d emitted although its value %s did not change (case %s)" % (k, exp[k], case))
        prev = got
        if len({x for x in exp}) > 1:
            moved = True
    return {"nt": moved and len(case["ops"]) >= 2, "cls": ["sort:n=%d" % n]}


def enum_sort(ctx):
    L_ = 4 if ctx.tier == "quick" else 5
    vals = [None, 1, 2, 3]
    for n in (1, 2, 3, 4):
        upd = [(i, v) for i in range(n) for v in vals]
        for k in range(1, L_ + 1):
            if n == 4 and k == L_ and ctx.tier == "quick":
                continue
            for seq in itertools.product(upd, repeat=k):
                yield {"n": n, "ops": [[list(u)] for u in seq]}


@st.composite
def sort_random(draw):
    n = draw(st.integers(1, 8))
    wide = st.one_of(st.none(), st.integers(1, 6), st.integers(-3, 3), st.sampled_from([2 ** 40, -2 ** 40, 2 ** 62]))
    ops = draw(st.lists(st.lists(st.tuples(st.integers(0, n - 1), wide).map(list), min_size=1, max_size=3,
                                 unique_by=lambda x: x[0]),
                        min_size=1, max_size=30))
    return {"n": n, "ops": ops}


# ---- (b) end to end ----------------------------------------------------------

def models_draw(draw):
    return [draw(st.sampled_from(["V", "V", "6"]))]


PROF = gen.Profile(kinds=["task"] * 4 + ["region"] * 3 + ["idle"] * 2 + ["state"] * 2 + ["affinity"],
                   models=models_draw, max_looms=2, max_procs=2, max_threads=3, max_cpus=4, min_threads=2,
                   steps=(10, 80), modes=("legal",), lint=False, breakdown=True, unwind=False,
                   flags=["-b"])


def breakdown_expect(model, m, pcf, typ, probs):
    """[(t, sorted list of numeric values)] from the model snapshots."""
    out = []
    ever = {}
    phys = [c for c in model.cpus if not c.virtual]
    lab_body = R.L_TASK_BODY[m]
    for (t, ths, cps) in model.snap:
        vals = []
        for c in phys:
            nrun, urow, _v, ever_sel = cps[c.row]
            if not ever_sel:
                vals.append(0)
                continue
            if urow is None:
                lab = R.L(R.L_RESTING)
            else:
                raw = ths[urow][4]
                idle = raw.get((m, "idle"))
                ss = raw.get((m, "subsystem"))
                tt = raw.get((m, "type"))
                if idle != R.L(R.L_PROGRESSING):
                    lab = idle
                elif ss == R.L(lab_body) and tt is not None:
                    lab = tt
                elif ss is None:
                    lab = R.L("Unknown subsystem")
                else:
                    lab = ss
            vals.append(compare.resolve(pcf, typ, lab, probs, "breakdown"))
        out.append((t, sorted(vals)))
    return out


PROF.no_bare_pause = True


def has_bare_pause(case):
    """Selector of known finding C20-bare-task-pause: some task is paused or resumed
    while the innermost open subsystem region of its thread is the task body itself
    (the task type changes but the subsystem, the mux select, does not)."""
    try:
        m = R.Model(case, enable_all=False)
    except R.Reject:
        return False
    for (ct, _p, _k, sidx, e) in m.merged_events():
        th = m.by_stream[sidx]
        if e[0] in ("VTp", "6Tp", "VTr", "6Tr"):
            ss = th.q.get((e[0][0], "subsystem"))
            if ss and ss[-1] == R.L(R.L_TASK_BODY[e[0][0]]):
                return True
        try:
            m.apply(sidx, e, ct)
        except R.Reject:
            return False
    return False


def matches_known(case, part, k):
    sel = k.get("selector", {})
    if sel.get("kind") == "bare-task-pause" and part == "breakdown-e2e":
        return has_bare_pause(case)
    return False


def check_breakdown(case):
    def f(model, d, r):
        for m in case.get("_models", []):
            if m not in BTYPE:
                continue
            typ, name = BTYPE[m]
            try:
                prv = pv.Prv(os.path.join(d, name + ".prv"))
                pcf = pv.Pcf(os.path.join(d, name + ".pcf"))
            except (pv.PvError, OSError) as e:
                raise Violation("cannot read %s: %s" % (name, e))
            nphy = len([c for c in model.cpus if not c.virtual])
            if prv.nrows != nphy:
                raise Violation("%s has %d rows for %d physical CPUs" % (name, prv.nrows, nphy))
            probs = []
            exp = breakdown_expect(model, m, pcf, typ, probs)
            if probs:
                raise Violation("; ".join(probs[:3]))
            steps = prv.steps()
            for (t, vals) in exp:
                got = [pv.value_at(steps.get((row, typ), ()), t) for row in range(1, nphy + 1)]
                if got != sorted(got):
                    raise Violation("%s rows not in non-decreasing order at t=%d: %s" % (name, t, got))
                if got != vals:
                    raise Violation("%s rows at t=%d are %s, per-CPU breakdown values sorted are %s" % (name, t, got, vals))
            wp = pv.check_wellformed(d, names=(name,), expect_duration=model.snap[-1][0] if model.snap else 0)
            if wp:
                raise Violation("malformed breakdown trace: " + "; ".join(wp[:3]))
    return f


def nt(case, res):
    m = res.get("model")
    if not m or res["verdict"] != "accept":
        return False
    for (t, ths, cps) in m.snap:
        run = [u for (n, u, v, _e) in cps.values() if n == 1 and not v]
        if len(run) >= 2:
            keys = {str(sorted((str(k), str(v)) for k, v in ths[u][4].items())) for u in run}
            if len(keys) >= 2:
                return True
    return False


def run_e2e(case, ctx):
    ctx.stats.excluded_known += case.get("_excluded_known", 0)
    try:
        return hist_run(case, ctx, nt=nt, extra_check=check_breakdown(case),
                        extra_cls=lambda c, r: ["model:" + x for x in c.get("_models", [])])
    except Violation as v:
        if "collision occurred" in str(v):
            return {"discard": True, "cls": ["label-hash-collision"]}
        raise


def parts(tier):
    return [
        Part("sort-exhaustive", run_sort, enum=enum_sort, cap_s={"quick": 300, "thorough": 3000}),
        Part("sort-random", run_sort, strategy=lambda ctx: sort_random(), budget={"quick": 4000, "thorough": 60000}),
        Part("breakdown-e2e", run_e2e, strategy=lambda ctx: gen.history(PROF), budget={"quick": 3000, "thorough": 50000}),
    ]
