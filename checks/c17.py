"""C17 — mark API end to end (DESIGN section 4, C17)."""
import json, os, struct
from hypothesis import strategies as st
from vlib.runner import Part, Violation
from vlib import rt, obs, gen, refmodel as R, trace as T, tools, judge, compare, pv

ID = "C17"
VARIANTS = ["asan"]
TARGETS = ["ovni-static", "ovniemu"]
LEVEL = "exploration"
RULE = ("turn-based multi-thread libovni programs (1-4 threads in one process, or split over two processes of one loom that run one after the other into the same trace directory) through rtdrv: ovni_mark_type "
        "(stack/single, titles), ovni_mark_label, then ovni_mark_set/push/pop interleaved with OHp/OHr, cool/warm "
        "and OAs; the types and labels are declared by different threads that agree, overlap, or (one case in "
        "three) carry exactly one conflict (title, channel type or label) or one misuse (pop mismatch, zero value - through the API or as a plain event in any thread state, also hidden while the thread is paused -, "
        "undefined type, set on a stack type, push/pop on a single type, type out of range, redefinition, label "
        "of an undefined type or value <= 0).  Oracle: a conflict or misuse is refused either by libovni (abort "
        "with a diagnostic) or by ovniemu (exit 1); otherwise stream.json holds exactly what each thread declared, "
        "the streams hold exactly the mark events emitted, ovniemu -l accepts, thread rows of type 100+t show the "
        "value while the thread is active, CPU rows the value of the unique running thread, and the .pcf section "
        "of 100+t carries the title and exactly the union of the labels.  Non-trivial = >= 2 threads defining the "
        "same type, or a mark changed while its thread is paused; distinct = program.")
ASSUMPTIONS = ["clocks are stamped by the library: timelines are compared at the clocks found in the streams, which are first matched against the emitted calls"]

TITLES = ["phase", "iteration count", "region A", "x"]
LABELS = ["init", "solve", "halo exchange", "io", "z"]


def setup(ctx):
    return {"rtdrv": rt.compile_driver(ctx.b("asan"))}


@st.composite
def programs(draw):
    nth = draw(st.integers(1, 4))
    ntypes = draw(st.integers(1, 3))
    tids = [200 + i * 3 for i in range(nth)]
    # one process, or two processes of the same loom that run one after the other
    split = draw(st.integers(1, nth - 1)) if (nth >= 2 and draw(st.booleans())) else nth
    pids = [9 if t < split else 11 for t in range(nth)]
    phases = [list(range(split))] + ([list(range(split, nth))] if split < nth else [])
    types = {}
    excluded_known = 0
    used = draw(st.lists(st.integers(0, 99), min_size=ntypes, max_size=ntypes, unique=True))
    if ntypes >= 2 and draw(st.integers(0, 3)) == 0:
        # type numbers that differ by 32 or 64 (3/35, 31/95, 0/64)
        b0 = draw(st.integers(0, 35))
        used = [b0, b0 + draw(st.sampled_from([32, 64]))] + [x for x in used[2:] if x not in (b0, b0 + 32, b0 + 64)]
        ntypes = len(used)
    for mt in used:
        kind = draw(st.sampled_from(["single", "stack"]))
        labs = {}
        for v in draw(st.lists(st.integers(1, 6), max_size=4, unique=True)):
            if draw(st.integers(0, 15)) == 0:
                # a label for a value that does not fit in 32 bits
                if EXCLUDE_BIG_LABELS:
                    excluded_known += 1       # known finding C17-label-value-beyond-int: excluded by construction, counted
                else:
                    v += 2 ** 32
            labs[v] = "%s %d" % (draw(st.sampled_from(LABELS)), v)
        types[mt] = {"kind": kind, "title": "%s %d" % (draw(st.sampled_from(TITLES)), mt), "labels": labs}
    # who declares what
    decl = []
    for t in range(nth):
        d = {}
        for mt, ty in types.items():
            if t == 0 and mt == used[0] or draw(st.booleans()):
                vals = [v for v in ty["labels"] if draw(st.booleans())]
                d[mt] = vals
        decl.append(d)
    for mt, ty in types.items():           # every type declared by someone, every label by someone
        if not any(mt in d for d in decl):
            decl[draw(st.integers(0, nth - 1))][mt] = []
        for v in ty["labels"]:
            if not any(v in d.get(mt, []) for d in decl):
                who = [i for i, d in enumerate(decl) if mt in d]
                decl[draw(st.sampled_from(who))][mt].append(v)
    bad = draw(st.sampled_from([None, None, "title", "kind", "label", "pop-mismatch", "zero", "zero-raw", "zero-raw", "undefined", "set-on-stack",
                                "push-on-single", "pop-on-single", "range", "redefine", "label-undefined", "label-value"]))
    # system + walk
    streams = []
    ncpus = draw(st.integers(1, 3))
    # the second process may live in another loom (node), where the same thread ids are in use
    two_looms = split < nth and draw(st.booleans())
    looms = ["node.7" if (pids[t] == 9 or not two_looms) else "node.8" for t in range(nth)]
    if two_looms and nth - split <= split:
        for i in range(nth - split):
            tids[split + i] = tids[i]
    for t in range(nth):
        s = {"loom": looms[t], "pid": pids[t], "tid": tids[t], "app": 3 if pids[t] == 9 else 4, "require": {"ovni": "1.1.0"}, "events": []}
        if t == 0 or (two_looms and t == split):
            s["cpus"] = [[i, i] for i in range(ncpus)]
        streams.append(s)
    marks_meta = {str(mt): {"title": ty["title"], "chan_type": ty["kind"], "labels": {str(v): l for v, l in ty["labels"].items()}}
                  for mt, ty in types.items()}
    streams[0]["extra"] = {"ovni.mark": marks_meta}
    tr = {"streams": streams}
    w = gen.Walk(draw, tr, lint=True)
    ths = w.threads()
    ops = []            # (thread index, op list)
    for t in range(nth):
        for mt, vals in sorted(decl[t].items()):
            ty = types[mt]
            ops.append((t, ["mtype", mt, 1 if ty["kind"] == "stack" else 0, ty["title"]]))
            for v in vals:
                ops.append((t, ["mlabel", mt, v, ty["labels"][v]]))
    conflict_done = False
    if bad in ("title", "kind", "label"):
        cands = [(t, mt) for t in range(nth) for mt in types if mt not in decl[t]]
        if not cands or (bad == "label" and not any(types[mt]["labels"] for (_t, mt) in cands)):
            bad = None
        else:
            if bad == "label":
                cands = [(t, mt) for (t, mt) in cands if types[mt]["labels"]]
            t, mt = draw(st.sampled_from(cands))
            ty = types[mt]
            title = ty["title"] + (" (other)" if bad == "title" else "")
            flag = (1 if ty["kind"] == "stack" else 0) ^ (1 if bad == "kind" else 0)
            ops.append((t, ["mtype", mt, flag, title]))
            if bad == "label":
                v = sorted(ty["labels"])[0]
                ops.append((t, ["mlabel", mt, v, ty["labels"][v] + " (other)"]))
            if draw(st.booleans()):
                # the conflicting definition is not the last one of that thread: a further, valid type follows
                extra_t = [x for x in (98, 97, 3, 4) if x not in types][0]
                ops.append((t, ["mtype", extra_t, draw(st.integers(0, 1)), "one more type"]))
            conflict_done = True
    if bad == "range":
        ops.append((0, ["mtype", draw(st.sampled_from([-1, 100, 1000])), 0, "t"]))
    if bad == "redefine":
        ops.append((0, ["mtype", used[0], 1 if types[used[0]]["kind"] == "stack" else 0, types[used[0]]["title"]]))
    if bad == "label-undefined":
        free = [x for x in range(100) if x not in types]
        ops.append((0, ["mlabel", free[0], 1, "lab"]))
    if bad == "label-value":
        ops.append((0, ["mlabel", used[0], draw(st.sampled_from([0, -1])), "lab"]))
    n = draw(st.integers(3, 40))
    misuse_at = draw(st.integers(0, n - 1)) if bad in ("pop-mismatch", "zero", "zero-raw", "undefined", "set-on-stack", "push-on-single", "pop-on-single") else -1
    hidden = False
    stop = False

    def close(members):
        for _round in range(4):
            for t in members:
                th = ths[t]
                if th.state == R.ST_UNKNOWN and w.legal(th, "OHx", T.P("iiQ", -1, -1, 0)):
                    ops.append((t, ["ev", "OHx", T.P("iiQ", -1, -1, 0)]))
                if th.state in (R.ST_PAUSED, R.ST_WARMING) and w.legal(th, "OHr"):
                    ops.append((t, ["ev", "OHr", ""]))
                if th.state in (R.ST_RUNNING, R.ST_COOLING) and w.legal(th, "OHe"):
                    ops.append((t, ["ev", "OHe", ""]))

    for pi, members in enumerate(phases):
        if stop:
            break
        for t in members:
            k = t - split if (two_looms and t >= split) else t
            cpu = k if k < ncpus else -1
            if w.legal(ths[t], "OHx", T.P("iiQ", cpu, -1, 0)):
                ops.append((t, ["ev", "OHx", T.P("iiQ", cpu, -1, 0)]))
        lo, hi = (0, n) if len(phases) == 1 else ((0, n // 2) if pi == 0 else (n // 2, n))
        for i in range(lo, hi):
            t = members[draw(st.integers(0, len(members) - 1))]
            th = ths[t]
            if th.state in (R.ST_DEAD, R.ST_UNKNOWN):
                continue
            if i == misuse_at:
                mts = sorted(types)
                singles = [m for m in mts if types[m]["kind"] == "single"]
                stacks = [m for m in mts if types[m]["kind"] == "stack"]
                op = None
                if bad == "zero":
                    m = draw(st.sampled_from(mts))
                    op = ["mset" if types[m]["kind"] == "single" else "mpush", m, 0]
                elif bad == "zero-raw":
                    # the zero reaches the trace as a plain event (libovni itself refuses it), in whatever
                    # state the thread is; when the thread is not active the value is replaced again before
                    # it could become visible: the emulator still has to refuse the event
                    m = draw(st.sampled_from(mts))
                    single = types[m]["kind"] == "single"
                    op = ["ev", "OM=" if single else "OM[", T.P("qi", 0, m)]
                    if th.state not in R.ACTIVE:
                        ops.append((t, op))
                        op = ["ev", "OM=", T.P("qi", 5, m)] if single else ["ev", "OM]", T.P("qi", 0, m)]
                elif bad == "undefined":
                    free = [x for x in range(100) if x not in types]
                    # never-defined types inside and outside the documented 0..99 range
                    op = [draw(st.sampled_from(["mset", "mpush"])), draw(st.sampled_from([free[1], free[-1], -1, -1, 100, 1000, -7])), 3]
                elif bad == "set-on-stack" and stacks:
                    op = ["mset", stacks[0], 2]
                elif bad == "push-on-single" and singles:
                    op = ["mpush", singles[0], 2]
                elif bad == "pop-on-single" and singles:
                    op = ["mpop", singles[0], 2]
                elif bad == "pop-mismatch" and stacks:
                    m = stacks[0]
                    cur = th.q[("O", "mark%d" % m)]
                    op = ["mpop", m, (cur[-1] + 1) if cur else 5]
                if op is not None:
                    ops.append((t, op))
                    conflict_done = True
                    stop = True
                    break
                continue
            k = draw(st.integers(0, 9))
            if k <= 5:
                p = gen.prop_mark(draw, w, th)
                if p and w.legal(th, *p):
                    v, mt = struct.unpack("<qi", bytes.fromhex(p[1]))
                    ops.append((t, [{"OM=": "mset", "OM[": "mpush", "OM]": "mpop"}[p[0]], mt, v]))
                    if th.state not in R.ACTIVE:
                        hidden = True
            elif k <= 7:
                p = gen.prop_state(draw, w, th)
                if p[0] != "OHe" and w.legal(th, *p):
                    ops.append((t, ["ev", p[0], ""]))
            else:
                idx = draw(st.integers(-1, ncpus - 1))
                if w.legal(th, "OAs", T.P("i", idx)):
                    ops.append((t, ["ev", "OAs", T.P("i", idx)]))
        close(members)
    if bad is not None and not conflict_done and bad not in ("range", "redefine", "label-undefined", "label-value"):
        bad = None
    close(list(range(nth)))
    shared = sum(1 for mt in types if sum(1 for d in decl if mt in d) >= 2)
    return {"nth": nth, "tids": tids, "pids": pids, "looms": looms, "ncpus": ncpus, "types": {str(k): v for k, v in types.items()},
            "decl": [{str(k): v for k, v in d.items()} for d in decl], "ops": [[t] + o for t, o in ops],
            "bad": bad, "nt": bool(shared or hidden), "_excluded_known": excluded_known}


EXCLUDE_BIG_LABELS = True


def matches_known(case, part, k):
    sel = k.get("selector", {})
    if sel.get("kind") == "label-value-beyond-int" and part == "mark-programs":
        return any(int(v) > 2 ** 31 - 1 for ty in case.get("types", {}).values() for v in ty.get("labels", {}))
    return False


def to_scripts(case):
    """One script per process (pid), in execution order."""
    out = []
    pids = case.get("pids") or [9] * case["nth"]
    for pid in sorted(set(pids)):
        members = [t for t in range(case["nth"]) if pids[t] == pid]
        looms = case.get("looms") or ["node.7"] * case["nth"]
        lines = ["MODE turn", "P init %d %s %d" % (3 if pid == 9 else 4, rt.hx(looms[members[0]]), pid)]
        for t in members:
            lines.append("T%d init %d" % (t, case["tids"][t]))
        if 0 in members or looms[members[0]] != looms[0]:
            for i in range(case["ncpus"]):
                lines.append("T%d cpu %d %d" % (members[0], i, i))
        for o in case["ops"]:
            t, op = o[0], o[1:]
            if t not in members:
                continue
            if op[0] == "mtype":
                lines.append("T%d mtype %d %d %s" % (t, op[1], op[2], rt.hx(op[3])))
            elif op[0] == "mlabel":
                lines.append("T%d mlabel %d %d %s" % (t, op[1], op[2], rt.hx(op[3])))
            elif op[0] in ("mset", "mpush", "mpop"):
                lines.append("T%d %s %d %d" % (t, op[0], op[1], op[2]))
            else:
                lines.append(("T%d ev %s now %s" % (t, rt.hx(op[1]), op[2])).rstrip())
        for t in members:
            lines.append("T%d flush" % t)
            lines.append("T%d free" % t)
        lines.append("P fini")
        out.append((pid, members, lines))
    return out


def run(case, ctx):
    ctx.stats.excluded_known += case.get("_excluded_known", 0)
    scripts = to_scripts(case)
    pids = case.get("pids") or [9] * case["nth"]
    looms = case.get("looms") or ["node.7"] * case["nth"]
    d = ctx.newdir()
    try:
        tracedir = os.path.join(d, "trace")
        runs = {}
        refused = []
        for (pid, members, lines) in scripts:
            rr = rt.run_script(ctx.shared["rtdrv"], lines, os.path.join(d, "p%d" % pid), tracedir=tracedir)
            if rr.res.kind != "ok":
                raise Violation("driver did not finish: %s" % rr.res.brief())
            refused += [(pid, who, ln) for who, lg in rr.logs.items() for ln, v in lg.items() if v[0] == "refused"]
            for t in members:
                runs[t] = (lines, rr)
        os.makedirs(os.path.join(tracedir, "cfg"), exist_ok=True)
        er = tools.emu(ctx.b("asan"), tracedir, ("-l",))
        if er.kind not in ("ok", "rejected"):
            raise Violation("ovniemu crashed: %s" % er.brief())
        if case["bad"]:
            if not refused and er.ok:
                raise Violation("misuse/conflict '%s' was refused neither by libovni nor by ovniemu" % case["bad"])
            return {"nt": case["nt"], "cls": ["bad:" + case["bad"], "refused-by:" + ("libovni" if refused else "ovniemu")]}
        if refused:
            raise Violation("libovni refused a call of a correct program (pid, thread, script line: %s)" % refused[:3])
        # streams hold exactly what was emitted; metadata holds exactly what was declared
        streams = []
        for t in range(case["nth"]):
            lines, rr = runs[t]
            sd = os.path.join(tracedir, "loom.%s" % looms[t], "proc.%d" % pids[t], "thread.%d" % case["tids"][t])
            data = open(os.path.join(sd, "stream.obs"), "rb").read()
            evs, probs = obs.validate_stream(data)
            if probs:
                raise Violation("thread %d stream invalid: %s" % (t, probs[:2]))
            prob = rt.match_stream(rt.expected_stream(lines, rr, "T%d" % t), evs)
            if prob:
                raise Violation("thread %d: %s" % (t, prob))
            meta = json.load(open(os.path.join(sd, "stream.json")))
            got = meta.get("ovni", {}).get("mark", {}) or {}
            want = {}
            for mt, vals in case["decl"][t].items():
                ty = case["types"][mt]
                e = {"title": ty["title"], "chan_type": ty["kind"]}
                if vals:
                    e["labels"] = {str(v): ty["labels"][str(v)] if isinstance(ty["labels"], dict) and str(v) in ty["labels"] else ty["labels"][v] for v in vals}
                want[mt] = e
            if got != want:
                raise Violation("thread %d metadata marks %s != declared %s" % (t, got, want))
            streams.append({"loom": looms[t], "pid": pids[t], "tid": case["tids"][t], "raw_json": json.dumps(meta),
                            "events": [[e.mcv, e.clock, e.payload.hex(), int(e.jumbo)] for e in evs]})
        if not er.ok:
            raise Violation("ovniemu -l rejects the trace of a correct mark program: %s" % er.brief())
        tr = {"streams": streams}
        v, info, model = judge.model_verdict_u(tr, lint=True)
        if v != "accept":
            raise Violation("harness: reference model does not accept the recorded trace: %s" % (info,))
        mtypes = {100 + int(mt) for mt in case["types"]}
        probs = compare.compare(model, tracedir, only_types=mtypes | {4, 6})
        if probs:
            raise Violation("mark timelines differ: " + "; ".join(probs[:3]))
        for name in ("thread", "cpu"):
            pcf = pv.Pcf(os.path.join(tracedir, name + ".pcf"))
            for mt, ty in case["types"].items():
                typ = 100 + int(mt)
                if pcf.type_label(typ) != ty["title"]:
                    raise Violation("%s.pcf type %d title %r != %r" % (name, typ, pcf.type_label(typ), ty["title"]))
                want = {int(v): l for v, l in ty["labels"].items()}
                if pcf.types[typ][1] != want:
                    raise Violation("%s.pcf type %d labels %s != union of declared labels %s" % (name, typ, pcf.types[typ][1], want))
        return {"nt": case["nt"], "cls": ["ok-program", "threads:%d" % case["nth"], "processes:%d" % len(scripts)] + (["two-looms"] if len(set(looms)) > 1 else []),
                "sample": {"script": scripts[0][2][:30], "processes": len(scripts)}}
    finally:
        ctx.rmdir(d)


def parts(tier):
    return [Part("mark-programs", run, strategy=lambda ctx: programs(), budget={"quick": 6000, "thorough": 60000})]
