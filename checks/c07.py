"""C07 — task life-cycle (DESIGN section 4, C07)."""
from hypothesis import strategies as st
from vlib.runner import Part, Violation
from vlib import gen, refmodel as R, trace as T
from checks.common import hist_run, mcvs
from checks import c07_exec

ID = "C07"
VARIANTS = ["plain"]
TARGETS = ["ovniemu", "emu"]
LEVEL = "exploration"
RULE = ("(a) in-process, model-based bounded-exhaustive exploration of task.c/body.c: BFS over reference-model "
        "states (2 thread stacks, up to 3 tasks drawn from all 16 flag combinations, body ids {1,2}) to depth D; "
        "from every reachable state every operation execute/pause/resume/end(stack, task, body) is tried "
        "against the real module; oracle = reference accept/reject and state.  (b) end-to-end nOS-V and Nanos6 "
        "histories (type/task creation, execute/pause/resume/end incl. parallel bodies and nesting, interleaved "
        "with thread pause/resume and subsystem regions), half with one illegal step; oracle = reference "
        "verdict vs exit status and thread/cpu rows of types 10-15 / 35-38 after every event time.  "
        "Non-trivial (b) = >= 2 tasks with nesting, or a parallel task with >= 2 bodies; distinct = history.")
ASSUMPTIONS = ["task-type labels colliding in the 31-bit hash are discarded (counted)",
               "Nanos6 execute directly over an open 'task body' region is unclaimed (generators rely on 6Wt)"]

TYPES = {10, 11, 12, 13, 14, 15, 35, 36, 37, 38, 4, 2, 6}


def models_draw(draw):
    return [draw(st.sampled_from(["V", "V", "6"]))]


PROF = gen.Profile(kinds=["task"] * 7 + ["region", "state", "affinity"], models=models_draw,
                   max_looms=1, max_procs=2, max_threads=3, max_cpus=3, steps=(10, 70),
                   modes=("legal", "legal", "illegal", "illegal", "noend"), lint=None, ranks=True,
                   wild_kinds=["task"] * 5 + ["gated"])


def nt(case, res):
    m = res.get("model")
    if not m:
        return False
    evs = mcvs(case)
    nx = sum(1 for e in evs if e[1:] == "Tx")
    par = sum(1 for e in evs if e == "VTC")
    return nx >= 2 and (par >= 1 or sum(1 for e in evs if e[1:] in ("Tp",)) >= 1 or nx >= 3)


def classes(case, res):
    evs = mcvs(case)
    out = []
    for k in ("VTC", "VTp", "6Tp", "VTx", "6Tx"):
        if k in evs:
            out.append("has:" + k)
    if res["verdict"] == "reject" and res["info"]:
        out.append("why:" + str(res["info"].get("why"))[:44])
    return out


def run(case, ctx):
    try:
        return hist_run(case, ctx, only_types=TYPES, nt=nt, extra_cls=classes)
    except Violation as v:
        if "collision occurred" in str(v):
            return {"discard": True, "cls": ["label-hash-collision"]}
        raise


def setup(ctx):
    return c07_exec.setup(ctx)


def parts(tier):
    return [
        c07_exec.part(tier),
        Part("histories", run, strategy=lambda ctx: gen.history(PROF),
             budget={"quick": 5000, "thorough": 80000}),
    ]
