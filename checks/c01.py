"""C01 — runtime stream fidelity (DESIGN section 4, C01)."""
import os, json
from hypothesis import strategies as st
from vlib.runner import Part, Violation
from vlib import rt, obs

ID = "C01"
VARIANTS = ["asan"]
TARGETS = ["ovni-static"]
LEVEL = "exploration"
RULE = ("single-thread libovni programs run through the rtdrv interpreter: proc_init, thread_init, then a sequence "
        "over emit(any printable MCV except the reserved OF[ / OF], any clock, payload built by 0..k "
        "ovni_payload_add calls totalling 0 or 2..16 bytes), jumbo-emit (size 0 .. beyond the buffer capacity, "
        "pattern data), flush, mark set/push/pop; libovni and driver built with ASan; 40% of the runs under an LD_PRELOAD shim that turns every write() into a real short write; half of the programs are boundary-targeted: a filler jumbo "
        "brings the 2 MiB buffer to MAX-d (d in 0..64, every residue of the thresholds) before 1-4 probe events of "
        "every size class; ending flush, thread_free, proc_fini; one program in five is a re-run into a trace directory that already holds a stream of the same thread; plus free-running programs of 2-8 threads with multi-MiB streams whose thread_free calls are released together by a barrier (OVNI_TMPDIR relocation running concurrently).  Oracle: stream.obs decoded by the independent "
        "codec = 8-byte header + exactly the emitted events, in call order, byte for byte (library-stamped mark "
        "clocks inside the call bracket), the only extra events being payload-less OF[ / OF] markers.  Emits the "
        "library refuses (too large) are valid outcomes.  Non-trivial = the program crossed the buffer boundary "
        "or used >= 3 distinct payload sizes; distinct = op script.")
ASSUMPTIONS = ["user events named OF[ / OF] are not generated (indistinguishable from the library's markers)"]

MAX = rt.MAX_EV_BUF
PRINT = [chr(c) for c in range(32, 127)]


def setup(ctx):
    b = ctx.b("asan")
    return {"rtdrv": rt.compile_driver(b), "shim": rt.compile_shim(b)}


mcvs = st.tuples(st.sampled_from(PRINT), st.sampled_from(PRINT), st.sampled_from(PRINT)).map("".join).filter(
    lambda m: m not in ("OF[", "OF]"))
clocks = st.one_of(st.integers(0, 2 ** 64 - 1), st.integers(0, 1000), st.just("now"))


@st.composite
def payload_parts(draw):
    total = draw(st.sampled_from([0, 0, 2, 3, 4, 5, 7, 8, 9, 12, 15, 16]))
    parts = []
    left = total
    while left > 0:
        if left in (2, 3):
            k = left
        else:
            k = draw(st.integers(2, left))
            if left - k == 1:
                k = left
        parts.append(draw(st.binary(min_size=k, max_size=k)).hex())
        left -= k
    return parts


@st.composite
def one_op(draw, marks=True):
    k = draw(st.integers(0, 11))
    if k <= 6:
        return ["ev", draw(mcvs), draw(clocks)] + draw(payload_parts())
    if k == 7:
        return ["jumbo", draw(mcvs), draw(clocks), draw(st.one_of(st.integers(0, 64), st.integers(0, 5000))), draw(st.integers(0, 255))]
    if k == 8:
        return ["flush"]
    if k == 9 and marks:
        return [draw(st.sampled_from(["mset", "mpush", "mpop"])), draw(st.integers(0, 99)), draw(st.integers(1, 2 ** 62))]
    if k == 10:
        return ["jumbo", draw(mcvs), draw(clocks), draw(st.sampled_from([MAX - 17, MAX - 16, MAX - 15, MAX, MAX + 5, 2 * MAX, MAX - 40, MAX // 2])), draw(st.integers(0, 255))]
    return ["ev", draw(mcvs), draw(clocks)] + draw(payload_parts())


def op_size(op):
    if op[0] == "ev":
        return 12 + sum(len(p) // 2 for p in op[3:])
    if op[0] == "jumbo":
        return 16 + op[3]
    if op[0] in ("mset", "mpush", "mpop"):
        return 24
    return 0


def simulate(ops):
    """Approximate buffer fill (for targeting only, never for the oracle)."""
    ev = 0
    for op in ops:
        if op[0] == "flush":
            ev = 24
            continue
        s = op_size(op)
        if op[0] == "jumbo" and s >= MAX:
            continue
        if ev + s >= MAX:
            ev = s + 24
        else:
            ev += s
    return ev


@st.composite
def programs(draw):
    ops = draw(st.lists(one_op(), min_size=0, max_size=12))
    targeted = draw(st.booleans())
    if targeted:
        rounds = draw(st.integers(1, 2))
        for _ in range(rounds):
            fill = simulate(ops)
            delta = draw(st.integers(0, 64))
            n = MAX - delta - fill - 16
            if n >= 0 and 16 + n < MAX:
                ops.append(["jumbo", "OB.", draw(clocks), n, draw(st.integers(0, 255))])
            probes = draw(st.lists(one_op(), min_size=1, max_size=4))
            ops += probes
    # one case in five first runs ANOTHER program with the same loom/pid/tid into the
    # same trace directory (a re-run): the stream must still hold only this run's events
    prev = draw(st.lists(one_op(), min_size=0, max_size=10)) if draw(st.integers(0, 4)) == 0 else None
    return {"ops": ops, "tmpdir": draw(st.sampled_from([False, False, False, False, False, True, True, "same", "alias"])),
            "short": draw(st.sampled_from([None, None, None, "half", "one"])), "prev": prev,
            # order in which the event builder functions (clock, mcv, payload) are called
            "order": draw(st.sampled_from([0, 0, 1, 2, 3]))}


def script_lines(case, tid=77):
    lines = ["MODE turn", "ORDER %d" % case.get("order", 0), "P init 1 %s 5" % rt.hx("node.1"), "T0 init %d" % tid]
    for op in case["ops"]:
        if op[0] == "ev":
            lines.append("T0 ev %s %s %s" % (rt.hx(op[1]), op[2], " ".join(op[3:])))
        elif op[0] == "jumbo":
            lines.append("T0 jumbo %s %s %d %d" % (rt.hx(op[1]), op[2], op[3], op[4]))
        elif op[0] == "flush":
            lines.append("T0 flush")
        else:
            lines.append("T0 %s %d %d" % (op[0], op[1], op[2]))
    lines += ["T0 flush", "T0 free", "P fini"]
    return lines


def run(case, ctx):
    lines = script_lines(case)
    d = ctx.newdir()
    try:
        env = rt.shim_env(ctx.shared["shim"], short=case["short"]) if case.get("short") else None
        if case.get("prev") is not None:
            r0 = rt.run_script(ctx.shared["rtdrv"], script_lines({"ops": case["prev"]}), os.path.join(d, "prev"),
                               tmpdir_mode=case.get("tmpdir", False), tracedir=os.path.join(d, "trace"))
            if r0.res.kind != "ok":
                raise Violation("driver did not finish (previous run): %s" % r0.res.brief())
        rr = rt.run_script(ctx.shared["rtdrv"], lines, d, tmpdir_mode=case.get("tmpdir", False), env=env)
        if rr.res.kind != "ok":
            raise Violation("driver did not finish: %s" % rr.res.brief())
        path = os.path.join(rr.tracedir, "loom.node.1", "proc.5", "thread.77", "stream.obs")
        try:
            data = open(path, "rb").read()
        except OSError as e:
            raise Violation("no stream left on disk: %s" % e)
        try:
            dec = obs.decode_stream(data)
        except obs.DecodeError as e:
            raise Violation("stream.obs does not follow the trace spec: %s" % e)
        exp = rt.expected_stream(lines, rr, "T0")
        prob = rt.match_stream(exp, dec)
        if prob:
            raise Violation(prob)
        log = rr.logs.get("T0", {})
        refused = sum(1 for v in log.values() if v[0] == "refused")
        crossed = len(data) > MAX or any(e.mcv == "OF[" for e in dec[:-2])
        sizes = {len(e.payload) for e in dec if not e.jumbo}
        cls = [("tmpdir" if case.get("tmpdir") is True else "tmpdir-is-%s-as-tracedir" % case.get("tmpdir")) if case.get("tmpdir") else "direct"]
        if case.get("prev") is not None:
            cls.append("rerun-into-existing-trace")
        if case.get("short"):
            cls.append("short-writes:" + case["short"])
        if refused:
            cls.append("has-refused-op")
        if crossed:
            cls.append("crossed-boundary")
        if any(e.jumbo for e in dec):
            cls.append("has-jumbo")
        return {"nt": crossed or len(sizes) >= 3, "cls": cls, "sample": {"ops": [o if o[0] != "ev" else o[:3] + ["%d parts" % len(o[3:])] for o in case["ops"][:12]]}}
    finally:
        ctx.rmdir(d)


@st.composite
def concurrent(draw):
    """N threads with multi-MiB streams that are freed at the same moment in
    OVNI_TMPDIR mode (the relocation to the final directory runs concurrently)."""
    nth = draw(st.integers(2, 8))
    threads = []
    for t in range(nth):
        ops = draw(st.lists(one_op(marks=False), min_size=1, max_size=6))
        ops.append(["jumbo", "OB.", draw(clocks), draw(st.integers(300000, MAX - 100)), draw(st.integers(0, 255))])
        ops += draw(st.lists(one_op(marks=False), min_size=0, max_size=4))
        threads.append(ops)
    return {"threads": threads, "tmpdir": draw(st.sampled_from([True, True, True, False]))}


def run_concurrent(case, ctx):
    lines = ["MODE free", "P init 1 %s 5" % rt.hx("node.1")]
    for t, ops in enumerate(case["threads"]):
        w = "T%d " % t
        lines.append(w + "init %d" % (300 + t))
        for op in ops:
            if op[0] == "ev":
                lines.append(w + "ev %s %s %s" % (rt.hx(op[1]), op[2], " ".join(op[3:])))
            elif op[0] == "jumbo":
                lines.append(w + "jumbo %s %s %d %d" % (rt.hx(op[1]), op[2], op[3], op[4]))
            elif op[0] == "flush":
                lines.append(w + "flush")
        lines.append(w + "flush")
        lines.append(w + "barrier")
        lines.append(w + "free")
    lines.append("P fini")
    d = ctx.newdir()
    try:
        rr = rt.run_script(ctx.shared["rtdrv"], lines, d, tmpdir_mode=case["tmpdir"], cpu_s=120, wall_s=300)
        if rr.res.kind != "ok":
            raise Violation("driver did not finish: %s" % rr.res.brief())
        for t in range(len(case["threads"])):
            path = os.path.join(rr.tracedir, "loom.node.1", "proc.5", "thread.%d" % (300 + t), "stream.obs")
            try:
                dec = obs.decode_stream(open(path, "rb").read())
            except (OSError, obs.DecodeError) as e:
                raise Violation("thread %d: stream.obs missing or not following the trace spec after concurrent thread_free: %s" % (t, e))
            prob = rt.match_stream(rt.expected_stream(lines, rr, "T%d" % t), dec)
            if prob:
                raise Violation("thread %d (of %d freed together, %s mode): %s" % (t, len(case["threads"]), "TMPDIR" if case["tmpdir"] else "direct", prob))
        return {"nt": True, "cls": ["concurrent-free:%d" % len(case["threads"]), "tmpdir" if case["tmpdir"] else "direct"],
                "sample": {"threads": len(case["threads"]), "tmpdir": case["tmpdir"], "first_lines": lines[:8]}}
    finally:
        ctx.rmdir(d)


def enum_boundary(ctx):
    """Exhaustive sweep: fill level MAX-d for d in 0..40, every normal event size, buffer otherwise empty/non-empty."""
    sizes = [0] + list(range(2, 17))
    for d in range(0, 41):
        for s in sizes:
            for pre in (0, 1):
                ops = []
                if pre:
                    ops.append(["ev", "abc", 5])
                fill = simulate(ops)
                n = MAX - d - fill - 16
                ops.append(["jumbo", "OB.", 6, n, d])
                parts = []
                if s:
                    parts = [("%02x" % (s + i)) for i in range(s)]
                    parts = ["".join(parts)]
                ops.append(["ev", "xyz", 7] + parts)
                ops.append(["ev", "end", 8])
                yield {"ops": ops, "tmpdir": False}


def parts(tier):
    ps = [Part("programs", run, strategy=lambda ctx: programs(), budget={"quick": 3000, "thorough": 60000}),
          Part("concurrent-free", run_concurrent, strategy=lambda ctx: concurrent(), budget={"quick": 160, "thorough": 3000},
               replay_any=20)]
    if tier == "thorough":
        ps.append(Part("boundary-sweep", run, enum=enum_boundary, cap_s={"quick": 200, "thorough": 2000}))
    return ps
