"""C11 — concurrent tracing threads are isolated; process init/fini happen exactly once (DESIGN section 4, C11)."""
import json, os, re
from hypothesis import strategies as st
from vlib.runner import Part, Violation
from vlib import rt, obs, tools
from checks import c01

ID = "C11"
VARIANTS = ["tsan"]
TARGETS = ["ovni-static"]
LEVEL = "exploration"
REPLAY_ANY = 40      # schedule-dependent: a failing program must fail again within 40 re-runs
RULE = ("rtdrv in free-running mode, libovni and driver built with ThreadSanitizer: 2-8 pthreads released by a "
        "barrier, each with its own generated op list (thread_init, require, add_cpu, emits, jumbo emits incl. "
        "buffer-boundary crossings, flushes, marks, attributes, attr_flush, thread_free) and generated spin "
        "delays, thread ids 300+k or 300+k*32768, a quarter of the threads issuing 20-60 requirements in a row, a third of the threads setting the process rank (recorded in the caller's metadata only), a third of the programs with one thread that has finished completely before the others are released together; direct and OVNI_TMPDIR mode.  Race trials: N threads call ovni_proc_init (resp. ovni_proc_fini) "
        "from the barrier; refusals (die) are observed through a SIGABRT handler.  Oracle: (1) no ThreadSanitizer "
        "report with a frame in ovni.c / common.c / parson.c; (2) every thread's stream equals its own emit log "
        "and its stream.json holds exactly its tid, the attributes, requires, CPUs and marks it set; (3) race "
        "trials: exactly one caller returns normally, the others are refused, the process directory exists once, "
        "the winner can init a thread and trace; ovni_proc_init after or racing with ovni_proc_fini of the initialised process is refused and a finished stream stays untouched.  Non-trivial = >= 2 threads whose measured op intervals overlap; "
        "distinct = program.")
ASSUMPTIONS = ["the schedule is owned by the OS: interleavings are sampled, not enumerated; ThreadSanitizer's happens-before "
               "analysis generalises data races over schedules, logical races between two atomics are found only probabilistically"]

MAX = rt.MAX_EV_BUF
TSAN_ENV = {"TSAN_OPTIONS": "halt_on_error=1:exitcode=66:report_signal_unsafe=0:second_deadlock_stack=1"}


def setup(ctx):
    b = ctx.b("tsan")
    return {"rtdrv": rt.compile_driver(b)}


@st.composite
def thread_ops(draw, t):
    ops = []
    n = draw(st.integers(1, 25))
    if draw(st.booleans()):
        ops.append(["spin", draw(st.integers(0, 20000))])
    ops.append(["init", 300 + t])
    for _ in range(draw(st.integers(0, 2))):
        ops.append(["require", draw(st.sampled_from(["nosv", "nanos6", "mpi", "tampi"])), draw(st.sampled_from(["1.0.0", "2.0.0", "1.1.0"]))])
    if draw(st.integers(0, 3)) == 0:
        # many requirements in a row, by every thread that draws this, right after the common start:
        # version strings are parsed concurrently
        for k in range(draw(st.integers(20, 60))):
            ops.append(["require", "mdl%02d" % (k % 17), "%d.%d.%d" % (1 + t, k, t)])
    for i in range(draw(st.integers(0, 3))):
        ops.append(["cpu", 10 * t + i, 100 * t + i])
    if draw(st.integers(0, 2)) == 0:
        # the rank is recorded in the metadata of the thread that sets it (the same pair for the
        # whole process, as MPI would give it)
        ops.append(["rank", 3, 8])
    if draw(st.booleans()):
        ops.append(["mtype", t, draw(st.integers(0, 1)), "title of %d" % t])
        ops.append(["mlabel", t, 1 + t, "label %d" % t])
    big = draw(st.integers(0, 3)) == 0
    for i in range(n):
        k = draw(st.integers(0, 12))
        if k <= 6:
            ops.append(draw(c01.one_op(marks=False)))
        elif k == 7:
            ops.append(["attr", draw(st.sampled_from(["str", "num", "bool", "json"])), "verif.t%d.k%d" % (t, draw(st.integers(0, 3))),
                        draw(st.integers(0, 99))])
        elif k == 8:
            ops.append(["attr_flush"])
        elif k == 9:
            ops.append(["spin", draw(st.integers(0, 5000))])
        elif k == 10:
            ops.append(["flush"])
        elif k == 11 and big:
            ops.append(["jumbo", "OB.", "now", draw(st.sampled_from([MAX - 200, MAX // 2, MAX - 5000])), t])
        else:
            ops.append(["mset", t, draw(st.integers(1, 9))])
    ops.append(["flush"])
    ops.append(["free"])
    return ops


@st.composite
def programs(draw):
    nth = draw(st.integers(2, 8))
    threads = [draw(thread_ops(t)) for t in range(nth)]
    # "late": the first thread finishes completely before the others are released together
    # (a barrier after its thread_free, which is the first op of everybody else)
    late = nth >= 3 and draw(st.integers(0, 2)) == 0
    if late:
        threads[0] = [o for o in threads[0] if o[0] != "spin"] + [["barrier"]]
        for t in range(1, nth):
            threads[t] = [["barrier"]] + [o for o in threads[t] if o[0] != "spin"]
    # thread ids 300, 301, ... or 300 + k * 32768 (any positive number is a legal thread id)
    step = draw(st.sampled_from([1, 1, 32768, 65536]))
    if step != 1:
        for t in range(nth):
            for o in threads[t]:
                if o[0] == "init":
                    o[1] = 300 + t * step
    return {"threads": threads, "tmpdir": draw(st.booleans()), "late": late, "tidstep": step}


def to_script(case):
    lines = ["MODE free", "P init 1 %s 5" % rt.hx("node.1")]
    for t, ops in enumerate(case["threads"]):
        for op in ops:
            w = "T%d " % t
            if op[0] == "ev":
                lines.append(w + "ev %s %s %s" % (rt.hx(op[1]), op[2], " ".join(op[3:])))
            elif op[0] == "jumbo":
                lines.append(w + "jumbo %s %s %d %d" % (rt.hx(op[1]), op[2], op[3], op[4]))
            elif op[0] == "require":
                lines.append(w + "require %s %s" % (rt.hx(op[1]), rt.hx(op[2])))
            elif op[0] == "mtype":
                lines.append(w + "mtype %d %d %s" % (op[1], op[2], rt.hx(op[3])))
            elif op[0] == "mlabel":
                lines.append(w + "mlabel %d %d %s" % (op[1], op[2], rt.hx(op[3])))
            elif op[0] == "attr":
                val = {"str": "s%d" % op[3], "num": str(op[3]), "bool": str(op[3] % 2), "json": '{"a": %d}' % op[3]}[op[1]]
                lines.append(w + "attr %s %s %s" % (op[1], rt.hx(op[2]), rt.hx(val)))
            else:
                lines.append(w + " ".join(str(x) for x in op))
    lines.append("P fini")
    return lines


def tsan_check(res, what):
    txt = res.err.decode("latin-1", "replace")
    if "ThreadSanitizer" in txt:
        lib = re.search(r"(ovni\.c|common\.c|parson\.c)", txt)
        if lib:
            raise Violation("%s: ThreadSanitizer report inside the library: %s" % (what, " | ".join(l.strip() for l in txt.split("\n") if "ThreadSanitizer" in l or "ovni.c" in l or "parson.c" in l or "common.c" in l)[:700]))
        raise Violation("%s: ThreadSanitizer report (driver/harness code?): %s" % (what, txt[:500]))


def expected_meta(ops):
    attrs, req, cpus, marks = {}, {"ovni": None}, [], {}
    for op in ops:
        if op[0] == "require":
            req[op[1]] = op[2]
        elif op[0] == "cpu":
            cpus.append({"index": op[1], "phyid": op[2]})
        elif op[0] == "mtype":
            marks[str(op[1])] = {"title": op[3], "chan_type": "stack" if op[2] else "single"}
        elif op[0] == "mlabel":
            marks[str(op[1])].setdefault("labels", {})[str(op[2])] = op[3]
        elif op[0] == "attr":
            val = {"str": "s%d" % op[3], "num": float(op[3]), "bool": bool(op[3] % 2), "json": {"a": op[3]}}[op[1]]
            attrs[op[2]] = val
        elif op[0] == "rank":
            attrs["ovni.rank"], attrs["ovni.nranks"] = op[1], op[2]
    return attrs, req, cpus, marks


def dotget(m, key):
    d = m
    for p in key.split("."):
        if not isinstance(d, dict) or p not in d:
            return None
        d = d[p]
    return d


def run(case, ctx):
    lines = to_script(case)
    d = ctx.newdir()
    try:
        rr = rt.run_script(ctx.shared["rtdrv"], lines, d, tmpdir_mode=case["tmpdir"], env=TSAN_ENV, cpu_s=120, wall_s=300)
        tsan_check(rr.res, "tracing threads")
        if rr.res.kind != "ok":
            raise Violation("driver did not finish: %s" % rr.res.brief())
        for t, ops in enumerate(case["threads"]):
            who = "T%d" % t
            tid = 300 + t * case.get("tidstep", 1)
            sd = os.path.join(rr.tracedir, "loom.node.1", "proc.5", "thread.%d" % tid)
            try:
                data = open(os.path.join(sd, "stream.obs"), "rb").read()
                meta = json.load(open(os.path.join(sd, "stream.json")))
            except Exception as e:
                raise Violation("thread %d left no complete stream: %s" % (t, e))
            try:
                dec = obs.decode_stream(data)
            except obs.DecodeError as e:
                raise Violation("thread %d stream corrupt: %s" % (t, e))
            prob = rt.match_stream(rt.expected_stream(lines, rr, who), dec)
            if prob:
                raise Violation("thread %d stream is not what that thread emitted: %s" % (t, prob))
            attrs, req, cpus, marks = expected_meta(ops)
            o = meta.get("ovni", {})
            if o.get("tid") != tid or o.get("finished") != 1:
                raise Violation("thread %d metadata tid/finished wrong: %s" % (t, {k: o.get(k) for k in ("tid", "finished")}))
            greq = dict(o.get("require", {}))
            greq.pop("ovni", None)
            wreq = {k: v for k, v in req.items() if k != "ovni"}
            if greq != wreq:
                raise Violation("thread %d require %s != %s" % (t, greq, wreq))
            if o.get("loom_cpus", []) != cpus:
                raise Violation("thread %d loom_cpus %s != %s" % (t, o.get("loom_cpus"), cpus))
            if (o.get("mark") or {}) != marks:
                raise Violation("thread %d marks %s != %s" % (t, o.get("mark"), marks))
            for k in ("rank", "nranks"):
                if k in o and "ovni." + k not in attrs:
                    raise Violation("thread %d metadata has ovni.%s = %r, which that thread never set" % (t, k, o[k]))
            gv = meta.get("verif", {})
            for k, v in attrs.items():
                if dotget(meta, k) != v:
                    raise Violation("thread %d attribute %s = %r, expected %r" % (t, k, dotget(meta, k), v))
            for tk in gv:
                if tk != "t%d" % t:
                    raise Violation("thread %d metadata carries attributes of another thread: %s" % (t, tk))
        iv = sorted(rr.intervals.values())
        overlap = any(iv[i][1] > iv[i + 1][0] for i in range(len(iv) - 1)) if len(iv) > 1 else False
        return {"nt": overlap, "cls": ["threads:%d" % len(case["threads"]), "overlap" if overlap else "no-overlap",
                                       "tmpdir" if case["tmpdir"] else "direct"] + (["late-starters"] if case.get("late") else []),
                "sample": {"nthreads": len(case["threads"]), "ops_per_thread": [len(x) for x in case["threads"]], "first": lines[:12]}}
    finally:
        ctx.rmdir(d)


@st.composite
def races(draw):
    return {"kind": draw(st.sampled_from(["init", "fini", "init-vs-fini", "init-after-fini"])), "n": draw(st.integers(2, 8)),
            "spins": [draw(st.integers(0, 3000)) for _ in range(8)], "tmpdir": draw(st.booleans())}


def run_reinit(case, ctx):
    """The process was initialised and one thread has traced and finished.  T0 finalises the
    process while (init-vs-fini) or before (init-after-fini, ordered by a barrier) other threads
    call ovni_proc_init again: initialisation takes effect exactly once, so every later init is
    refused and the finished stream stays as it is."""
    n = case["n"]
    lines = ["MODE free", "P init 1 %s 5" % rt.hx("node.1")]
    lines += ["T0 init 300", "T0 ev %s 1000" % rt.hx("OHx") + " " + "ffffffffffffffff0000000000000000", "T0 ev %s 1001" % rt.hx("OB."),
              "T0 ev %s 1002" % rt.hx("OHe"), "T0 flush", "T0 free"]
    if case["spins"][0]:
        lines.append("T0 spin %d" % case["spins"][0])
    lines.append("T0 pfini")
    ordered = case["kind"] == "init-after-fini"
    if ordered:
        lines.append("T0 barrier")
    for t in range(1, n):
        if ordered:
            lines.append("T%d barrier" % t)
        elif case["spins"][t]:
            lines.append("T%d spin %d" % (t, case["spins"][t]))
        lines.append("T%d pinit 1 %s 5" % (t, rt.hx("node.1")))
    d = ctx.newdir()
    try:
        rr = rt.run_script(ctx.shared["rtdrv"], lines, d, tmpdir_mode=case["tmpdir"], env=TSAN_ENV, cpu_s=60, wall_s=200)
        tsan_check(rr.res, "proc_init against proc_fini")
        if rr.res.kind != "ok":
            raise Violation("driver did not finish: %s" % rr.res.brief())
        for t in range(n):
            log = rr.logs.get("T%d" % t, {})
            for i, l in enumerate(lines, 1):
                if l.startswith("T%d pinit" % t):
                    stt = log.get(i)
                    if stt and stt[0] == "ok":
                        raise Violation("ovni_proc_init by thread %d was accepted although the process had been initialised before (%s)"
                                        % (t, "after ovni_proc_fini returned" if ordered else "racing with ovni_proc_fini"))
                    if not stt or stt[0] != "refused":
                        raise Violation("thread %d: proc_init neither returned nor was refused (%s)" % (t, stt))
                if l.startswith("T%d pfini" % t):
                    stt = log.get(i)
                    if not stt or stt[0] != "ok":
                        raise Violation("ovni_proc_fini of the initialised process did not return normally (%s)" % (stt,))
        sd = os.path.join(rr.tracedir, "loom.node.1", "proc.5", "thread.300")
        try:
            dec = obs.decode_stream(open(os.path.join(sd, "stream.obs"), "rb").read())
        except Exception as e:
            raise Violation("the finished stream of thread 300 is gone or damaged after the second init attempt: %s" % e)
        if [e.mcv for e in dec if e.mcv not in ("OF[", "OF]")] != ["OHx", "OB.", "OHe"]:
            raise Violation("the finished stream of thread 300 changed after the second init attempt: %s" % [e.mcv for e in dec])
        return {"nt": True, "cls": ["race:" + case["kind"], "racers:%d" % n]}
    finally:
        ctx.rmdir(d)


def run_race(case, ctx):
    if case["kind"] in ("init-vs-fini", "init-after-fini"):
        return run_reinit(case, ctx)
    n = case["n"]
    lines = ["MODE free"]
    if case["kind"] == "fini":
        lines.append("P init 1 %s 5" % rt.hx("node.1"))
    for t in range(n):
        if case["spins"][t]:
            lines.append("T%d spin %d" % (t, case["spins"][t]))
        if case["kind"] == "init":
            lines.append("T%d pinit 1 %s 5" % (t, rt.hx("node.1")))
            lines.append("T%d init %d" % (t, 300 + t))
            lines.append("T%d ev %s %d" % (t, rt.hx("OB."), 1000 + t))
            lines.append("T%d flush" % t)
            lines.append("T%d free" % t)
        else:
            lines.append("T%d pfini" % t)
    d = ctx.newdir()
    try:
        rr = rt.run_script(ctx.shared["rtdrv"], lines, d, tmpdir_mode=case["tmpdir"], env=TSAN_ENV, cpu_s=60, wall_s=200)
        tsan_check(rr.res, "racing proc_%s" % case["kind"])
        if rr.res.kind != "ok":
            raise Violation("driver did not finish: %s" % rr.res.brief())
        op = "pinit" if case["kind"] == "init" else "pfini"
        winners = []
        for t in range(n):
            log = rr.logs.get("T%d" % t, {})
            for i, l in enumerate(lines, 1):
                if l.startswith("T%d %s" % (t, op)):
                    stt = log.get(i)
                    if stt and stt[0] == "ok":
                        winners.append(t)
                    elif not stt or stt[0] != "refused":
                        raise Violation("thread %d: proc_%s neither returned nor was refused (%s)" % (t, case["kind"], stt))
        if len(winners) != 1:
            raise Violation("%d threads raced ovni_proc_%s: %d returned normally (%s), exactly one must" % (n, case["kind"], len(winners), winners))
        if case["kind"] == "init":
            looms = [x for x in os.listdir(rr.tracedir) if x.startswith("loom.")] if os.path.isdir(rr.tracedir) else []
            if looms != ["loom.node.1"] or os.listdir(os.path.join(rr.tracedir, looms[0])) != ["proc.5"]:
                raise Violation("process directory not created exactly once: %s" % looms)
            w = winners[0]
            sd = os.path.join(rr.tracedir, "loom.node.1", "proc.5", "thread.%d" % (300 + w))
            try:
                dec = obs.decode_stream(open(os.path.join(sd, "stream.obs"), "rb").read())
                fin = json.load(open(os.path.join(sd, "stream.json")))["ovni"]["finished"]
            except Exception as e:
                raise Violation("the winner of the init race could not trace afterwards: %s" % e)
            if fin != 1 or not any(e.mcv == "OB." for e in dec):
                raise Violation("the winner's stream is incomplete")
        return {"nt": True, "cls": ["race:" + case["kind"], "racers:%d" % n]}
    finally:
        ctx.rmdir(d)


def parts(tier):
    return [Part("tracing-threads", run, strategy=lambda ctx: programs(), budget={"quick": 1200, "thorough": 30000}),
            Part("init-fini-races", run_race, strategy=lambda ctx: races(), budget={"quick": 2000, "thorough": 50000})]
