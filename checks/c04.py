"""C04 — thread life-cycle iff (DESIGN section 4, C04)."""
import itertools
from hypothesis import strategies as st
from vlib.runner import Part, Violation
from vlib import trace as T, refmodel as R, gen, judge
from checks.common import hist_run

ID = "C04"
VARIANTS = ["plain"]
TARGETS = ["ovniemu"]
LEVEL = "exploration"
RULE = ("histories over OHx (on the thread's own or on a spare CPU)/OHp/OHr/OHc/OHw/OHe: (i) every sequence up to length L on one thread, "
        "(ii) every legal prefix followed by one arbitrary event (one and two threads), "
        "(ii-b) the same for two threads sharing ONE physical CPU (oversubscription must be refused), (iii) model-guided random walks on 1-3 threads (own physical CPU each), half with one injected "
        "illegal event or a missing end; oracle = reference FSM verdict vs ovniemu exit status, and for "
        "accepted histories thread.prv types 4/2/6 after every event time. Non-trivial = history contains "
        "a pause/cool/warm; distinct = the history itself. Execute on a dead thread is excluded (left open). "
        "(iv) whole systems: 1-3 looms x 1-2 processes x 1-2 threads (TIDs may repeat between processes, PIDs between looms), threads of a loom time-share its CPUs; legal, one illegal event, or some threads (often a single one, in any loom) left unfinished.")
ASSUMPTIONS = ["cross-stream clock ties are not generated (order unspecified)",
               "OHx on a dead thread is outside the quantified space"]

EV = {"x": "OHx", "X": "OHx", "p": "OHp", "r": "OHr", "c": "OHc", "w": "OHw", "e": "OHe"}
ALPHA = "xXprcwe"      # X = execute on another (spare) CPU
NEXT = {  # documented FSM
    "U": {"x": "R"},     # ("X": execute on the spare CPU, same transition; only generated as an injected event)
    "R": {"c": "C", "p": "P", "e": "D"},
    "C": {"p": "P", "e": "D"},
    "P": {"w": "W", "r": "R"},
    "W": {"r": "R"},
    "D": {},
}


def mk_trace(nthreads, seq, shared_cpu=False):
    """seq: list of (thread index, letter).  Every thread has its own CPU, or
    (shared_cpu) all threads execute on physical CPU 0."""
    streams = []
    ncpus = nthreads + 1
    for i in range(nthreads):
        s = {"loom": "n.0", "pid": 10, "tid": 11 + i, "app": 1, "events": []}
        if i == 0:
            s["cpus"] = [[k, k] for k in range(ncpus)]
        streams.append(s)
    clk = 100
    for (ti, a) in seq:
        clk += 7
        if a == "x":
            streams[ti]["events"].append(T.OHx(clk, 0 if shared_cpu else ti))
        elif a == "X":
            # execute naming the spare CPU (never the thread's first CPU)
            streams[ti]["events"].append(T.OHx(clk, ncpus - 1))
        else:
            streams[ti]["events"].append(T.plain(EV[a], clk))
    return {"streams": streams}


def run_seq(case, ctx):
    nth, seq = case["n"], [(int(x[0]), x[1]) for x in case["seq"]]
    tr = mk_trace(nth, seq, shared_cpu=case.get("shared", False))
    res = judge.judge(ctx, tr, flags=("-l",), only_types={4, 2, 6}, cpu=False)
    if res.get("discard"):
        ctx.stats.excluded_known += 0
        return res
    letters = {a for _, a in seq}
    nt = bool(letters & {"p", "c", "w"})
    cls = ["verdict:" + res["verdict"], "threads:%d" % nth]
    if case.get("shared"):
        cls.append("shared-cpu")
        if res["verdict"] == "reject" and res["info"] and "oversubscribed" in str(res["info"].get("why")):
            cls.append("reject:oversubscription")
    return {"nt": nt, "cls": cls}


def enum_all(maxlen):
    def f(ctx):
        for L_ in range(0, maxlen + 1):
            for seq in itertools.product(ALPHA, repeat=L_):
                yield {"n": 1, "seq": ["0" + a for a in seq]}
    return f


def legal_prefixes(nth, maxlen):
    """All legal interleaved histories (list of (thread, letter)) up to maxlen."""
    out = []

    def rec(states, seq):
        out.append(list(seq))
        if len(seq) >= maxlen:
            return
        for ti in range(nth):
            for a, ns in NEXT[states[ti]].items():
                st2 = list(states)
                st2[ti] = ns
                seq.append((ti, a))
                rec(st2, seq)
                seq.pop()
    rec(["U"] * nth, [])
    return out


def enum_prefix_plus_one(nth, maxlen):
    def f(ctx):
        for pre in legal_prefixes(nth, maxlen - 1):
            base = ["%d%s" % (t, a) for t, a in pre]
            yield {"n": nth, "seq": base}
            for ti in range(nth):
                for a in ALPHA:
                    yield {"n": nth, "seq": base + ["%d%s" % (ti, a)]}
    return f


def enum_shared_cpu(maxlen):
    """Two threads that time-share ONE physical CPU: every history whose per-thread
    projections are legal FSM paths, plus one arbitrary event; oversubscription
    (two Running threads) must be refused."""
    def f(ctx):
        for pre in legal_prefixes(2, maxlen - 1):
            base = ["%d%s" % (t, a) for t, a in pre]
            yield {"n": 2, "seq": base, "shared": True}
            for ti in range(2):
                for a in ALPHA:
                    yield {"n": 2, "seq": base + ["%d%s" % (ti, a)], "shared": True}
    return f


def complete_paths(maxlen):
    """legal per-thread histories from not-started to dead"""
    out = []

    def rec(state, seq):
        if state == "D":
            out.append(list(seq))
            return
        if len(seq) >= maxlen:
            return
        for a, ns in NEXT[state].items():
            seq.append(a)
            rec(ns, seq)
            seq.pop()
    rec("U", [])
    return out


def interleavings(a, b):
    if not a:
        yield [(1, x) for x in b]
        return
    if not b:
        yield [(0, x) for x in a]
        return
    for rest in interleavings(a[1:], b):
        yield [(0, a[0])] + rest
    for rest in interleavings(a, b[1:]):
        yield [(1, b[0])] + rest


def enum_shared_complete(maxlen):
    """Two threads time-sharing ONE physical CPU, each with a complete legal
    life-cycle, in every interleaving: accepted iff the CPU never holds two
    Running threads (a tree that misses an oversubscription reaches a clean end)."""
    def f(ctx):
        paths = complete_paths(maxlen)
        for pa in paths:
            for pb in paths:
                for il in interleavings(pa, pb):
                    yield {"n": 2, "seq": ["%d%s" % (t, a) for t, a in il], "shared": True}
    return f


@st.composite
def walks(draw):
    nth = draw(st.integers(1, 3))
    n = draw(st.integers(5, 40))
    states = ["U"] * nth
    seq = []
    mode = draw(st.sampled_from(["legal", "legal", "illegal", "noend"]))
    bad_at = draw(st.integers(0, n - 1)) if mode == "illegal" else -1
    for i in range(n):
        ti = draw(st.integers(0, nth - 1))
        if i == bad_at:
            a = draw(st.sampled_from(ALPHA))
            seq.append((ti, a))
            if a.lower() not in NEXT[states[ti]] or (a == "X" and states[ti] != "U"):
                break
            a = a.lower()
            states[ti] = NEXT[states[ti]][a]
            continue
        opts = sorted(NEXT[states[ti]])
        if not opts:
            continue
        # delay the end so that histories get long
        if "e" in opts and len(opts) > 1 and draw(st.integers(0, 4)) != 0:
            opts.remove("e")
        a = draw(st.sampled_from(opts))
        seq.append((ti, a))
        states[ti] = NEXT[states[ti]][a]
    else:
        if mode != "noend":
            for ti in range(nth):
                while states[ti] not in ("D", "U"):
                    s = states[ti]
                    a = {"R": "e", "C": "e", "P": "r", "W": "r"}[s]
                    seq.append((ti, a))
                    states[ti] = NEXT[s][a]
    return {"n": nth, "seq": ["%d%s" % (t, a) for t, a in seq]}


PROF_SYS = gen.Profile(kinds=["state"] * 4 + ["noeffect"],
                       models=[], max_looms=3, max_procs=2, max_threads=2, max_cpus=3,
                       steps=(4, 40), lint=True, wild_kinds=["state", "state", "contend"],
                       modes=("legal", "illegal", "noend", "noend"))


def run_sys(case, ctx):
    res = hist_run(case, ctx, only_types={4, 2, 6}, cpu=False)
    if res.get("discard"):
        return res
    res["cls"].append("looms:%d" % len({s["loom"] for s in case["streams"]}))
    pt = {}
    for s in case["streams"]:
        pt.setdefault((s["loom"], s["tid"]), set()).add(s["pid"])
    if any(len(v) > 1 for v in pt.values()):
        res["cls"].append("same-tid-in-two-processes-of-a-loom")
    return res


def parts(tier):
    q = tier == "quick"
    return [
        Part("all-seq-1thread", run_seq, enum=enum_all(5 if q else 7),
             cap_s={"quick": 200, "thorough": 2400}),
        Part("legal-prefix+1-1thread", run_seq, enum=enum_prefix_plus_one(1, 9 if q else 12)),
        Part("legal-prefix+1-2threads", run_seq, enum=enum_prefix_plus_one(2, 5 if q else 7),
             cap_s={"quick": 200, "thorough": 2400}),
        Part("two-threads-one-cpu", run_seq, enum=enum_shared_cpu(5 if q else 7),
             cap_s={"quick": 200, "thorough": 2400}),
        Part("two-threads-one-cpu-complete", run_seq, enum=enum_shared_complete(4 if q else 5),
             cap_s={"quick": 200, "thorough": 2400}),
        Part("random-walks", run_seq, strategy=lambda ctx: walks(),
             budget={"quick": 4000, "thorough": 60000}),
        Part("whole-systems", run_sys, strategy=lambda ctx: gen.history(PROF_SYS),
             budget={"quick": 4000, "thorough": 60000}),
    ]
