"""C12 — structurally invalid or incomplete traces are rejected (DESIGN section 4, C12)."""
import json, struct
from hypothesis import strategies as st
from vlib.runner import Part, Violation
from vlib import gen, refmodel as R, trace as T, obs, judge, tools

ID = "C12"
VARIANTS = ["asan"]
TARGETS = ["ovniemu"]
LEVEL = "exploration"
RULE = ("a valid trace (model-guided history over all models, accepted by the reference model, lint-clean) "
        "plus exactly one corruption: truncation of a stream.obs at an offset that is not an event boundary "
        "(incl. inside the header), a cut at an event boundary before the thread's final OHe (incomplete stream with finished metadata), swap of two adjacent events with different clocks, alteration of a header "
        "byte (random, or to a neighbouring version/magic value), removal/alteration of a mandatory metadata key (version, ovni.part, tid, pid, loom, finished, "
        "require, lib.version; app_id / loom_cpus removed from all carriers), unparsable JSON, an incompatible "
        "required version, an event of a model nobody requires, an unregistered model letter, an unknown code (also one that differs from a handled code only in the top bit of a byte) "
        "of a required model, a wrong payload size for size-checked events (OHx, OAs, OAr, OM*, VT*, 6T*), a "
        "non-jumbo ?Yc (also right after a jumbo event), a jumbo ?Yc too short for its arguments or without terminator, ovni.finished set to another number/type.  Oracle: ovniemu (ASan build, with and without -l) "
        "exits 1, no signal, never prints 'emulation finished ok'.  Non-trivial = base has >= 2 streams or a "
        "non-ovni model; distinct = (base, corruption).")
ASSUMPTIONS = ["the base trace is judged valid by the reference model (which C04-C08 compare with the emulator)",
               "every stream of a base trace carries events (a stream retyped to another part is therefore not ignorable)"]

KINDS = ["truncate", "truncate", "truncate-boundary", "truncate-page", "swap", "header", "meta", "meta", "badjson", "version", "notrequired",
         "badmodel", "unknowncode", "payload", "payload", "nonjumbo", "nonjumbo-after-jumbo"]


def models_draw(draw):
    return draw(st.lists(st.sampled_from(gen.ALL_MODELS), unique=True, min_size=0, max_size=3))


PROF = gen.Profile(kinds=["region"] * 3 + ["task"] * 3 + ["idle", "mark", "flush", "noeffect"] + ["state"] * 2 + ["affinity"],
                   models=models_draw, max_looms=2, max_procs=2, max_threads=2, max_cpus=2,
                   steps=(4, 40), modes=("legal",), lint=True, marks=1, unwind=True)


PROF_TASK = gen.Profile(kinds=["task"] * 6 + ["region", "state"],
                        models=lambda draw: [draw(st.sampled_from(["V", "6"]))] + draw(st.lists(st.sampled_from(["M", "K"]), unique=True, max_size=1)),
                        max_looms=1, max_procs=2, max_threads=2, max_cpus=2,
                        steps=(6, 40), modes=("legal",), lint=True, unwind=True)


@st.composite
def cases(draw):
    kind = draw(st.sampled_from(KINDS))
    base = draw(gen.history(PROF_TASK if (kind.startswith("nonjumbo") or (kind == "payload" and draw(st.booleans()))) else PROF))
    return {"base": base, "kind": kind, "a": draw(st.integers(0, 10 ** 6)), "b": draw(st.integers(0, 10 ** 6)),
            "c": draw(st.integers(0, 255))}


META_OPS = [("del", "version"), ("set", "version", 2), ("set", "version", 4), ("set", "version", "3x"),
            ("del", "ovni.part"), ("del", "ovni.tid"), ("set", "ovni.tid", 0), ("del", "ovni.pid"), ("set", "ovni.pid", 0),
            ("del", "ovni.loom"), ("del", "ovni.finished"), ("set", "ovni.finished", 0), ("set", "ovni.finished", 2), ("set", "ovni.finished", -1),
            ("set", "ovni.finished", 0.5), ("set", "ovni.finished", "1"), ("set", "ovni.finished", None), ("del", "ovni.require"),
            ("del", "ovni.lib.version"), ("del", "ovni.lib.commit"), ("del", "ovni.lib"),
            ("delall", "app_id"), ("delall", "loom_cpus"), ("del", "ovni"), ("set", "ovni.loom", "a/b"),
            # a stream that carries events but is declared as another kind of part
            ("set", "ovni.part", "cpu"), ("set", "ovni.part", "proc"), ("set", "ovni.part", "")]

PAYLOAD_OPS = {  # mcv -> list of replacement payload sizes that the handler must refuse
    "OHx": [0, 2, 3], "OAs": [0, 2, 8, 16], "OAr": [0, 4, 12], "OM=": [0, 8, 16], "OM[": [0, 8, 16], "OM]": [0, 4, 16],
    "VTc": [0, 4, 6], "VTC": [0, 4], "VTx": [0, 4], "VTe": [0, 4], "VTp": [0, 4], "VTr": [0, 4],
    "6Tc": [0, 4, 12], "6Tx": [0, 2, 3], "6Te": [0, 2], "6Tp": [0, 3], "6Tr": [0, 2],
}


def corrupt(case):
    """Returns (trace, description) or None when the corruption does not apply."""
    base = judge.strip(json.loads(json.dumps(case["base"])))
    kind, a, b, c = case["kind"], case["a"], case["b"], case["c"]
    streams = base["streams"]
    si = a % len(streams)
    s = streams[si]
    evs = s["events"]
    data = T.obs_bytes(s)
    if kind == "truncate":
        if c % 2:
            # events after the thread's final OHe (a last flush leaves OF[ OF] there):
            # a cut inside them is not masked by "thread not dead"
            last = evs[-1][1] if evs else 0
            tail = [[T.plain("OF[", last), T.plain("OF]", last)], [T.plain("OB.", last)],
                    [T.plain("OB.", last), T.ev("OB.", last, "0000")]][(c // 2) % 3]
            s["events"] = evs + tail
            data = T.obs_bytes(s)
            dec = obs.decode_stream(data)
            first_tail = dec[len(evs)].offset
            offs = [o for o in range(first_tail + 1, len(data)) if o not in {e.offset for e in dec}]
            off = offs[b % len(offs)]
            s["raw_obs_hex"] = data[:off].hex()
            return base, "truncate stream %d inside the events that follow the final OHe, at %d of %d" % (si, off, len(data))
        dec = obs.decode_stream(data)
        bounds = {8} | {e.offset for e in dec} | {len(data)}
        offs = [o for o in range(0, len(data)) if o not in bounds]
        if not offs:
            return None
        off = offs[b % len(offs)]
        s["raw_obs_hex"] = data[:off].hex()
        return base, "truncate stream %d at %d of %d" % (si, off, len(data))
    if kind == "truncate-boundary":
        # cut exactly at an event boundary before the thread's final OHe (or right after
        # the header): structurally fine but incomplete, although the metadata says finished
        dec = obs.decode_stream(data)
        idx = [i for i, e in enumerate(dec) if e.mcv == "OHe"]
        if not idx:
            return None
        cuts = [8] + [e.offset for e in dec[1:idx[-1] + 1]]
        off = cuts[b % len(cuts)]
        s["raw_obs_hex"] = data[:off].hex()
        return base, "stream %d cut at the event boundary %d (before its final OHe)" % (si, off)
    if kind == "truncate-page":
        # pad with bursts so that the trailing event starts within 12 bytes of a
        # page boundary, then cut the file exactly at that boundary
        if not evs:
            return None
        last = evs[-1]
        body = evs[:-1]
        pre = len(T.obs_bytes({"events": body}))
        page = 4096 * (1 + c % 3)
        room = 1 + b % 11                      # bytes of the last header kept
        target = page - room
        pad = target - pre
        if pad < 0:
            return None
        clk = body[-1][1] if body else last[1]
        fill = []
        while pad >= 24 or pad in (12, 14, 16, 18, 20, 22):
            n = 12 if pad in (12, 24) or pad >= 36 else pad
            if n > 28:
                n = 12
            fill.append(T.ev("OB.", clk, "00" * (n - 12)))
            pad -= n
        if pad != 0:
            return None
        jum = c % 2 == 0
        tail = T.jumbo("OB.", last[1], b"x" * 40) if jum else T.ev("OB.", last[1], "00" * 16)
        s["events"] = body + fill + [tail, last]
        data = T.obs_bytes(s)
        s["raw_obs_hex"] = data[:page].hex()
        return base, "stream %d cut at page boundary %d, %d bytes into a trailing %s event" % (si, page, room, "jumbo" if jum else "normal")
    if kind == "swap":
        idx = [i for i in range(len(evs) - 1) if evs[i][1] != evs[i + 1][1]]
        if not idx:
            return None
        i = idx[b % len(idx)]
        evs[i], evs[i + 1] = evs[i + 1], evs[i]
        return base, "swap events %d,%d of stream %d" % (i, i + 1, si)
    if kind == "header":
        pos = b % 8
        nb = c if c != data[pos] else (c ^ 1)
        if (b // 8) % 3 == 0:
            # neighbouring values of the version number (stored in bytes 4..7) and of the magic
            pos, nb = [(4, 0), (4, 2), (4, 3), (5, 1), (7, 1), (7, 128), (0, ord("O")), (3, 0)][(b // 24) % 8]
            if nb == data[pos]:
                nb ^= 1
        s["raw_obs_hex"] = (data[:pos] + bytes([nb]) + data[pos + 1:]).hex()
        return base, "header byte %d := %d" % (pos, nb)
    if kind == "meta":
        op = META_OPS[b % len(META_OPS)]
        if op[0] == "del":
            s.setdefault("delete", []).append(op[1])
        elif op[0] == "set":
            s.setdefault("extra", {})[op[1]] = op[2]
        elif op[0] == "delall":
            key = op[1]
            for s2 in streams:
                if key == "app_id" and (s2["loom"], s2["pid"]) == (s["loom"], s["pid"]):
                    s2["app"] = None
                if key == "loom_cpus" and s2["loom"] == s["loom"]:
                    s2["cpus"] = None
        return base, "metadata %s" % (op,)
    if kind == "badjson":
        txt = T.json_text(s)
        cut = 1 + b % max(1, len(txt) - 2)
        s["raw_json"] = txt[:cut]
        try:
            json.loads(s["raw_json"])
            return None
        except Exception:
            pass
        return base, "json cut at %d" % cut
    if kind == "version":
        req = s["require"]
        name = sorted(req)[b % len(req)]
        v = R.parse_version(req[name])
        bad = [(v[0] + 1, v[1], v[2]), (v[0], v[1] + 1, 0), (v[0] - 1 if v[0] > 0 else v[0] + 2, 0, 0)][c % 3]
        req[name] = "%d.%d.%d" % bad
        return base, "require %s=%s" % (name, req[name])
    if kind in ("notrequired", "badmodel", "unknowncode"):
        if len(evs) < 2:
            return None
        pos = 1 + b % (len(evs) - 1)          # after the first event (OHx), before the last
        clk = evs[pos - 1][1]
        if kind == "notrequired":
            have = {R.NAME2CHAR[n] for s2 in streams for n in s2["require"] if n in R.NAME2CHAR}
            other = [m for m in gen.ALL_MODELS if m not in have]
            if not other:
                return None
            m = other[c % len(other)]
            prs = R.region_pairs(m)
            mcv = prs[b % len(prs)]["enter"]
        elif kind == "badmodel":
            mcv = "XYZ#$@"[c % 6] + "Ab"
        else:
            m = evs[pos - 1][0][0]
            if c % 4 < 2:
                mcv = m + "\x7f!~Z"[(c // 4) % 4] + "qZ9_"[b % 4]
            else:
                # a code that differs from a handled one (the previous event's) only in the top
                # bit of its category or value byte; preferably after an event of a model other
                # than ovni (every model has its own handler table)
                prev = evs[pos - 1][0]
                used = {e[0] for e in evs}
                ms = sorted(R.NAME2CHAR[n] for n in s["require"] if n in R.NAME2CHAR and R.NAME2CHAR[n] != "O")
                fresh = [pr for m_ in ms for pr in R.region_pairs(m_) if pr["enter"] not in used and pr["leave"] not in used]
                if fresh and evs[0][0] == "OHx":
                    # ... of a region of a required model that this thread never enters: were the code taken
                    # for the handled one, entering that region right after OHx would be legal
                    prev = fresh[b % len(fresh)]["enter"]
                    pos = 1
                    clk = evs[0][1]
                mcv = prev[0] + (chr(ord(prev[1]) | 0x80) + prev[2] if c % 4 == 2 else prev[1] + chr(ord(prev[2]) | 0x80))
            if mcv in R.regions() or mcv in R.IGNORED or mcv[:2] in ("OB", "OU"):
                return None     # (bursts and unordered-region markers: the value byte is ignored)
        evs.insert(pos, T.ev(mcv, clk))
        return base, "insert %r at %d of stream %d" % (mcv, pos, si)
    if kind == "payload":
        # pick the event code first (OHx is in every stream, task events are rare), then one occurrence
        # (in the stream that has most of them)
        si = max(range(len(streams)), key=lambda j: (len({e[0] for e in streams[j]["events"] if e[0] in PAYLOAD_OPS}), -((j - a) % len(streams))))
        s = streams[si]
        evs = s["events"]
        present = sorted({e[0] for e in evs if e[0] in PAYLOAD_OPS})
        if not present:
            return None
        code = present[b % len(present)]
        idx = [i for i, e in enumerate(evs) if e[0] == code]
        i = idx[(b // 17) % len(idx)]
        sizes = PAYLOAD_OPS[evs[i][0]]
        n = sizes[c % len(sizes)]
        old = bytes.fromhex(evs[i][2])
        evs[i] = [evs[i][0], evs[i][1], (old + bytes(16))[:n].hex(), 0]
        return base, "payload of %s (event %d) := %d bytes" % (evs[i][0], i, n)
    if kind in ("nonjumbo", "nonjumbo-after-jumbo"):
        idx = [i for i, e in enumerate(evs) if e[0] in ("VYc", "6Yc")]
        if not idx:
            return None
        i = idx[b % len(idx)]
        e = evs[i]
        if kind == "nonjumbo" and c % 3 == 0:
            # still a jumbo, but too short for (u32 typeid, nil-terminated label), or the label has no end
            pl = bytes.fromhex(e[2])
            k = (c // 3) % 6
            new = [b"", pl[:1], pl[:3], pl[:4], pl[:4] if pl[3:4] == b"\0" else struct.pack("<I", 7), pl.rstrip(b"\0") + b"x"][k]
            evs[i] = [e[0], e[1], new.hex(), 1]
            return base, "%s jumbo payload := %d bytes %s" % (e[0], len(new), "(no terminator)" if k == 5 else "")
        pl = bytes.fromhex(e[2])[:16]
        if len(pl) % 2 == 1 or len(pl) < 2:
            pl = (pl + bytes(16))[:max(2, len(pl) + 1)]
        evs[i] = [e[0], e[1], pl.hex(), 0]
        if kind == "nonjumbo-after-jumbo":
            evs.insert(i, T.jumbo("OB.", e[1], b"jumbo burst data"))
        return base, "%s made non-jumbo (%s)" % (e[0], kind)
    return None


def run(case, ctx):
    v, info, _m = judge.model_verdict_u(case["base"], lint=True)
    if v != "accept":
        return {"discard": True, "cls": ["base-not-accepted"]}
    r = corrupt(case)
    if r is None:
        return {"discard": True, "cls": ["not-applicable:" + case["kind"]]}
    tr, desc = r
    d = ctx.newdir()
    try:
        T.write_trace(tr, d)
        for flags in ((), ("-l",)):
            res = tools.emu(ctx.b("asan"), d, flags)
            if res.kind != "rejected":
                raise Violation("corruption [%s]: ovniemu %s -> %s" % (desc, " ".join(flags), res.brief()))
            if res.finished_ok():
                raise Violation("corruption [%s]: printed 'emulation finished ok'" % desc)
            if not res.err.strip():
                raise Violation("corruption [%s]: rejected without a diagnostic" % desc)
    finally:
        ctx.rmdir(d)
    nstreams = len(case["base"]["streams"])
    cls = ["kind:" + case["kind"]]
    if case["kind"] == "payload":
        cls.append("payload:" + desc.split()[2])
    return {"nt": nstreams >= 2 or bool(case["base"].get("_models")), "cls": cls}


def parts(tier):
    return [Part("single-corruption", run, strategy=lambda ctx: cases(), budget={"quick": 8000, "thorough": 150000})]
