"""C16 — ovnisort yields a stable sorted permutation and touches only what it must (DESIGN section 4, C16)."""
import os, json
from hypothesis import strategies as st
from vlib.runner import Part, Violation
from vlib import trace as T, tools, obs, gen, judge

ID = "C16"
VARIANTS = ["plain"]
TARGETS = ["ovniemu", "ovnisort"]
LEVEL = "exploration"
RULE = ("one or two streams (the second, already sorted one before or after the stream under test in path order) with a sorted backbone (OHx .. OHe, bursts, marks, jumbo bursts) and 0-5 OU[ .. OU] "
        "regions whose inner events have internally unordered clocks lying up to d events back (d from 0 to "
        "beyond the look-back -n, n from 3 up), equal clocks on both sides of the insertion point, regions that "
        "sort into a previous region or to the very start; always <= the clock of their OU]; a third of the streams with seconds rather than nanoseconds between events (differences beyond 32 bits), begin/end pairs of other models whose codes look like the markers (6U[ 6U], DU[ DU], VU[ VU]) with late clocks inside regions, a third of the runs under a shim that makes every pwrite() of the tool short.  Oracle when the "
        "look-back suffices (depth <= n-2): exit 0, same file size, decoded events = stable sort by clock of the "
        "original events with every event's bytes unchanged (hence permutation, order, stability, untouched "
        "prefix), a second run changes nothing, ovnisort -c passes, ovniemu -l accepts (asserted when the reference model accepts the sorted history).  For deeper regions the "
        "only accepted outcomes are (exit 0 and exactly that result) or (exit 1 with a diagnostic).  "
        "An enumerated part sorts traces of 1100 (thorough: 2500) streams under the default open-files limit.  Non-trivial = a region whose events move >= 2 positions; distinct = stream.")
ASSUMPTIONS = ["events of an unsorted region never carry a clock larger than their OU] (precondition in kernel.md)",
               "depth counts the events with clock >= the region's minimum clock that precede OU] (the tool's ring holds n-1 events)"]


@st.composite
def streams(draw):
    nreg = draw(st.integers(0, 5))
    foreign = draw(st.integers(0, 2)) == 0
    evs = []          # [mcv, clock, payload_hex, jumbo, tag]
    clk = 1000
    evs.append(T.OHx(clk, 0))
    uid = 0

    def filler():
        nonlocal uid
        uid += 1
        k = draw(st.integers(0, 9))
        if k == 0:
            return T.jumbo("OB.", 0, bytes([uid % 256]) * draw(st.integers(0, 30)))
        if k == 1:
            return T.mark("=", 0, uid, 0)
        return T.ev("OB.", 0, "")
    regions = []
    for r in range(nreg + 1):
        nb = draw(st.integers(0, 8))
        for _ in range(nb):
            clk += draw(st.sampled_from([0, 0, 1, 1, 2, 5]))
            e = filler()
            e[1] = clk
            evs.append(e)
        if r == nreg:
            break
        clk += draw(st.integers(0, 2))
        evs.append(T.ev("OU[", clk, ""))
        start = len(evs)
        n_in = draw(st.integers(1, 6))
        back = draw(st.integers(0, 40))
        lo = max(1000, clk - back)   # 1000 = clock of OHx: sorts to the very start of the window
        hi = clk + draw(st.integers(0, 3))
        inner = []
        for _ in range(n_in):
            e = filler()
            e[1] = draw(st.integers(lo, max(lo, hi)))
            inner.append(e)
        if foreign and draw(st.booleans()):
            # events of other models whose codes look like the region markers (?U[ / ?U]): a
            # begin/end pair with late clocks somewhere among the inner events
            m = draw(st.sampled_from(["6", "D", "V"]))
            c1 = draw(st.integers(lo, max(lo, hi)))
            c2 = draw(st.integers(c1, max(c1, hi)))
            at = draw(st.integers(0, len(inner)))
            inner[at:at] = [T.ev(m + "U[", c1, ""), T.ev(m + "U]", c2, "")]
            more = draw(st.integers(0, 2))
            for _ in range(more):
                e = filler()
                e[1] = draw(st.integers(lo, max(lo, hi)))
                inner.append(e)
            n_in = len(inner)
        evs += inner
        clk = max(clk, max(e[1] for e in inner)) + draw(st.integers(0, 2))
        evs.append(T.ev("OU]", clk, ""))
        regions.append((start, start + n_in))
    clk += 1
    evs.append(T.plain("OHe", clk))
    n = draw(st.one_of(st.none(), st.integers(3, 12), st.integers(3, 60)))
    # seconds instead of nanoseconds between events (an order-preserving map): clock differences beyond 32 bits
    scale = draw(st.sampled_from([1, 1, 1, 2 ** 31 + 3, 2 ** 32, 5 * 10 ** 9]))
    for e in evs:
        e[1] = 1000 + (e[1] - 1000) * scale
    # a third of the runs: every pwrite() of the tool is a legal short write (at most 40 or 1000 bytes)
    return {"events": evs, "n": n, "second_stream": draw(st.booleans()), "pwrite": draw(st.sampled_from([None, None, 40, 1000]))}


def setup(ctx):
    from vlib import rt
    return {"shim": rt.compile_shim(ctx.b("plain"))}


def analyse(evs, n):
    """Simulates the documented procedure to decide whether success is required.
    Returns (required, moved>=2, expected events)"""
    cur = list(evs)
    required = True
    moved = False
    i = 0
    # process regions sequentially on the evolving stream
    pos = 0
    while pos < len(cur):
        if cur[pos][0] == "OU[":
            j = pos + 1
            while j < len(cur) and cur[j][0] != "OU]":
                j += 1
            if j >= len(cur):
                break
            if j == pos + 1:
                pos = j + 1
                continue
            c0 = min(e[1] for e in cur[pos + 1:j])
            k = sum(1 for e in cur[:j] if e[1] >= c0)
            # events with clock >= c0 are contiguous at the end of the (sorted) prefix
            if n is not None and k > n - 2:
                required = False
            seg_start = j - k
            before = cur[seg_start:j]
            after = sorted(before, key=lambda e: e[1])
            for a, b_ in zip(before, after):
                pass
            if any(abs(before.index(e) - after.index(e)) >= 2 for e in before[-(j - pos - 1):]):
                moved = True
            cur[seg_start:j] = after
            pos = j + 1
        else:
            pos += 1
    return required, moved, sorted(evs, key=lambda e: e[1])


def key(e):
    return (e[0], e[1], e[2], e[3])


def run(case, ctx):
    b = ctx.b("plain")
    evs = case["events"]
    n = case["n"]
    s0 = {"loom": "n.0", "pid": 1, "tid": 1, "app": 1, "cpus": [[0, 0], [1, 1]], "events": evs,
          "extra": {"ovni.mark": {"0": {"title": "m", "chan_type": "single"}}}}
    if any(e[0][1] == "U" and e[0][0] != "O" for e in evs):
        s0["require"] = gen.require_for(["6", "D", "V"])
    streams = [s0]
    if case["second_stream"]:
        # a second, already sorted stream; for odd n (or default n) it precedes the
        # stream under test in path order, so the tool has processed another stream
        # (and filled its look-back ring) before it reaches the regions
        first = (case["n"] or 1) % 2 == 1
        other = {"loom": "n.0", "pid": 1, "tid": 2, "app": 1,
                 "events": [T.OHx(1000, 1)] + [T.plain("OB.", 1001 + i) for i in range(12)]
                 + [T.plain("OHe", max(1013, max(e[1] for e in evs) + 5))]}
        if first:
            other["tid"] = 1
            s0["tid"] = 2
        streams.append(other)
    required, moved, expect = analyse(evs, n)
    d = ctx.newdir()
    try:
        T.write_trace({"streams": streams}, d)
        path = os.path.join(d, T.stream_relpath(s0), "stream.obs")
        orig = open(path, "rb").read()
        flags = [] if n is None else ["-n", str(n)]
        env = {"LD_PRELOAD": ctx.shared["shim"], "SHIM_PWRITE": str(case["pwrite"])} if case.get("pwrite") else None
        r = tools.sort(b, d, flags, env=env)
        new = open(path, "rb").read()
        if r.kind == "rejected":
            if required:
                raise Violation("ovnisort -n %s failed although every region is within the look-back: %s" % (n, r.brief()))
            if not r.err.strip():
                raise Violation("ovnisort failed silently")
            return {"nt": moved, "cls": ["outcome:cannot-sort"]}
        if r.kind != "ok":
            raise Violation("ovnisort -n %s: %s" % (n, r.brief()))
        if len(new) != len(orig):
            raise Violation("stream size changed %d -> %d" % (len(orig), len(new)))
        try:
            dec = obs.decode_stream(new)
        except obs.DecodeError as e:
            raise Violation("sorted stream no longer decodes: %s" % e)
        got = [(e.mcv, e.clock, e.payload.hex(), int(e.jumbo)) for e in dec]
        want = [key(e) for e in expect]
        if got != want:
            k = next((i for i, (a, b_) in enumerate(zip(got, want)) if a != b_), min(len(got), len(want)))
            raise Violation("sorted stream differs from the stable sort of the original at event %d: got %s want %s"
                            % (k, got[k:k + 3], want[k:k + 3]))
        r2 = tools.sort(b, d, flags, env=env)
        if open(path, "rb").read() != new:
            raise Violation("second ovnisort run modified an already sorted stream")
        # a region may have grown (events of a later region sorted into it), so the
        # look-back precondition is re-evaluated for the second run
        req2, _m2, _e2 = analyse([list(x) for x in got], n)
        if r2.kind not in ("ok", "rejected") or (req2 and not r2.ok):
            raise Violation("second ovnisort run on the sorted stream: %s" % r2.brief())
        rc = tools.sort(b, d, ["-c"])
        if not rc.ok:
            raise Violation("ovnisort -c fails after a successful sort: %s" % rc.brief())
        # the emulator must accept the sorted trace whenever the sorted history is a legal one
        # (events of other models that moved may have ended up in an order that is not)
        s_sorted = dict(s0)
        s_sorted["events"] = [list(x) for x in want]
        verdict = judge.model_verdict_u({"streams": [s_sorted] + streams[1:]}, lint=True)[0]
        re_ = tools.emu(b, d, ("-l",))
        if verdict == "accept" and not re_.ok:
            raise Violation("ovniemu rejects the sorted stream: %s" % re_.brief())
        for s in streams[1:]:
            pass
    finally:
        ctx.rmdir(d)
    return {"nt": moved, "cls": ["outcome:sorted", "n:" + ("default" if n is None else "small"),
                                 "required" if required else "beyond-window", "sorted-history:" + verdict] + (["short-pwrite"] if case.get("pwrite") else [])
            + (["foreign-U-events"] if "require" in s0 else [])}


def enum_many(ctx):
    yield {"streams": 1100, "regions": 0}
    yield {"streams": 1100, "regions": 3}
    if ctx.tier != "quick":
        yield {"streams": 2500, "regions": 1}


def run_many(case, ctx):
    """More streams than the default open-files limit (1024), most of them without any region:
    the tool must work through all of them."""
    b = ctx.b("plain")
    n = case["streams"]
    streams = []
    want = {}
    for i in range(n):
        evs = [T.OHx(1000, -1), T.plain("OB.", 1010), T.plain("OB.", 1020)]
        if i % max(1, n // max(1, case["regions"])) == 7 and case["regions"]:
            evs += [T.ev("OU[", 1030, ""), T.plain("OB.", 1015), T.plain("OB.", 1012), T.ev("OU]", 1031, "")]
        evs.append(T.plain("OHe", 1040))
        s_ = {"loom": "n.0", "pid": 1, "tid": 100 + i, "app": 1, "events": evs}
        if i == 0:
            s_["cpus"] = [[0, 0]]
        streams.append(s_)
        want[i] = [key(e) for e in sorted(evs, key=lambda e: e[1])]
    d = ctx.newdir()
    try:
        T.write_trace({"streams": streams}, d)
        r = tools.run([b.tool("ovnisort"), d], cpu_s=120, wall_s=600, nofile=1024)
        if r.kind != "ok":
            raise Violation("ovnisort fails on a sortable trace of %d streams under the default open-files limit (1024): %s" % (n, r.brief()))
        for i, s_ in enumerate(streams):
            dec = obs.decode_stream(open(os.path.join(d, T.stream_relpath(s_), "stream.obs"), "rb").read())
            got = [(e.mcv, e.clock, e.payload.hex(), int(e.jumbo)) for e in dec]
            if got != want[i]:
                raise Violation("stream %d of %d is not the stable sort of its events after ovnisort" % (i, n))
        rc = tools.run([b.tool("ovnisort"), "-c", d], cpu_s=120, wall_s=600, nofile=1024)
        if not rc.ok:
            raise Violation("ovnisort -c fails after a successful sort of %d streams: %s" % (n, rc.brief()))
    finally:
        ctx.rmdir(d)
    return {"nt": True, "cls": ["many-streams"], "key": json.dumps(case)}


def parts(tier):
    return [Part("sort", run, strategy=lambda ctx: streams(), budget={"quick": 5000, "thorough": 80000}),
            Part("many-streams", run_many, enum=enum_many)]
