"""C06 — view consistency for every published quantity (DESIGN section 4, C06)."""
from hypothesis import strategies as st
from vlib.runner import Part, Violation
from vlib import gen, refmodel as R
from checks.common import hist_run, mcvs

ID = "C06"
VARIANTS = ["plain"]
TARGETS = ["ovniemu"]
LEVEL = "exploration"
RULE = ("histories over 1-2 models (all eight) plus 2 user mark types, 2-4 threads on 2-3 CPUs (+vCPU): "
        "value-changing events (region enter/leave, task execute/pause/resume/end, idle states, marks, flush "
        "markers, kernel in/out) interleaved with thread state and affinity events, including same-clock "
        "neighbours inside a stream.  Oracle: full reference evaluation of every (row, type) of thread.prv and "
        "cpu.prv after every event time; the tracking mode of each quantity is read from the emulator's own "
        ".pcf declaration.  Non-trivial = a value changes while its thread is not shown, or a thread changes "
        "CPU while holding a non-null value; distinct = history.")
ASSUMPTIONS = ["CPU idle rows may show either nothing or the idle default when no unique running thread (both allowed by the statement)",
               "setting an idle state to its current value and immediate region re-entry are not generated"]


def models_draw(draw):
    return draw(st.lists(st.sampled_from(gen.ALL_MODELS), unique=True, min_size=1, max_size=2))


PROF = gen.Profile(kinds=["region"] * 3 + ["task"] * 2 + ["idle", "mark", "mark", "flush", "kernel"]
                   + ["state"] * 3 + ["affinity"] * 2,
                   models=models_draw, max_looms=2, max_procs=2, max_threads=2, max_cpus=3, min_threads=2,
                   steps=(10, 80), modes=("legal", "legal", "legal", "illegal"), lint=False, marks=2,
                   ranks=True, unwind=False)


def nt(case, res):
    m = res.get("model")
    if not m or res["verdict"] != "accept":
        return False
    prev = None
    for (t, ths, cps) in m.snap:
        if prev is not None:
            for row, (state, cpurow, tid, pid, raw) in ths.items():
                pstate, pcpu, _, _, praw = prev[row]
                if raw != praw and state != R.ST_RUNNING and pstate != R.ST_RUNNING:
                    return True
                if cpurow != pcpu and pcpu is not None and cpurow is not None and any(v is not None for v in raw.values()):
                    return True
        prev = ths
    return False


def classes(case, res):
    out = ["model:" + x for x in case.get("_models", [])]
    evs = mcvs(case)
    if any(e.startswith("OM") for e in evs):
        out.append("has-marks")
    return out


def run(case, ctx):
    try:
        return hist_run(case, ctx, nt=nt, extra_cls=classes)
    except Violation as v:
        if "collision occurred" in str(v):
            return {"discard": True, "cls": ["label-hash-collision"]}
        raise


def parts(tier):
    return [Part("histories", run, strategy=lambda ctx: gen.history(PROF),
                 budget={"quick": 6000, "thorough": 100000})]
