"""Helpers shared by the history-based checks (C05-C08, C13, C20)."""
from vlib import judge, refmodel as R


def mcvs(tr):
    return [e[0] for s in tr["streams"] for e in s.get("events", [])]


def hist_run(case, ctx, only_types=None, skip_types=(), nt=None, cpu=True, wellformed=False,
             variant=None, extra_cls=None, extra_check=None):
    flags = tuple(case.get("_flags", ["-l"]))
    res = judge.judge(ctx, case, flags=flags, only_types=only_types, skip_types=skip_types, cpu=cpu,
                      wellformed=wellformed, variant=variant, extra_check=extra_check)
    if res.get("discard"):
        return res
    cls = ["verdict:" + res["verdict"], "mode:" + str(case.get("_mode")),
           "streams:%d" % len(case["streams"])]
    if res["verdict"] == "reject" and res["info"]:
        cls.append("reject-stage:" + str(res["info"].get("stage")))
    if extra_cls:
        cls += extra_cls(case, res)
    return {"nt": bool(nt(case, res)) if nt else True, "cls": cls}
