"""C18 — event catalogue consistency (DESIGN section 4, C18)."""
import json, os, re, struct
from hypothesis import strategies as st
from vlib.runner import Part, Violation
from vlib import judge, gen, refmodel as R, trace as T, tools, evdoc

ID = "C18"
VARIANTS = ["plain"]
TARGETS = ["ovniemu", "ovnidump", "ovnievents"]
LEVEL = "exploration"
RULE = ("(1) ovnievents output equals doc/user/emulation/events.md (build date line excepted); (2) every listed "
        "event of the 8 models is accepted by ovniemu -l inside a minimal legal context (recipe) with a payload "
        "of the declared shape, and ovnidump prints its description with %{arg}/%fmt{arg} replaced by generated "
        "argument values, computed by an independent formatter of the template language, one event at a time and in generated sequences of listed events of all models over 1-3 streams (neighbouring events sharing category/value characters); task-model events are also probed from cooling and warming threads, kernel events from paused ones; the contexts use three CPU numberings (index = physical id, shifted, crossed), bystander threads that do not require the model, and every legal use repeated 130 (thorough: 1100) times when the reference model accepts the repetition; (3) every unlisted "
        "three-character code over the 95 printable characters (8 x 95 x 95 codes, exhaustive; each without payload and with the well-formed payload and context of every listed event of the same category; a sample of values also right after each listed event of the category, i.e. in the state that event leaves behind: out of the CPU after KCO, region open, task running) is rejected, "
        "apart from OB? / OU? (value byte ignored) and the legacy code 6TC.  Non-trivial = listed event with "
        ">= 1 argument or unlisted code in an existing category; distinct = (model, code).")
ASSUMPTIONS = ["legacy codes accepted with a warning: 6TC only (observed at the pinned commit); anything else accepted is reported",
               "recipes give each listed event a context in which the documentation says it is legal"]

PRINTABLE = [chr(c) for c in range(32, 127)]


def catalogue():
    models, decls = evdoc.load()
    return models, decls, {d.mcv: d for d in decls}


# ---- (1) -------------------------------------------------------------------------

def run_catalogue(case, ctx):
    r = tools.events(ctx.b("plain"))
    if not r.ok:
        raise Violation("ovnievents failed: %s" % r.brief())
    got = [l for l in r.out.decode().split("\n") if not l.startswith("Built on")]
    from vlib import build
    want = [l for l in open(os.path.join(build.REPO, "doc/user/emulation/events.md")).read().split("\n") if not l.startswith("Built on")]
    if got != want:
        for i, (a, b) in enumerate(zip(got, want)):
            if a != b:
                raise Violation("ovnievents line %d %r != events.md %r" % (i, a, b))
        raise Violation("ovnievents prints %d lines, events.md has %d" % (len(got), len(want)))
    return {"nt": True, "cls": ["catalogue"], "key": "catalogue"}


# ---- (2) listed events ---------------------------------------------------------------

FMT = {"u8": "B", "i8": "b", "u16": "H", "i16": "h", "u32": "I", "i32": "i", "u64": "Q", "i64": "q"}
RANGE = {"u8": (0, 255), "i8": (-128, 127), "u16": (0, 65535), "i16": (-32768, 32767), "u32": (0, 2 ** 32 - 1),
         "i32": (-2 ** 31, 2 ** 31 - 1), "u64": (0, 2 ** 64 - 1), "i64": (-2 ** 63, 2 ** 63 - 1)}


def encode_args(decl, values):
    out = b""
    for (t, n), v in zip(decl.args, values):
        if t == "str":
            out += v.encode() + b"\0"
        else:
            out += struct.pack("<" + FMT[t], v)
    return out


_SPEC = re.compile(r"%%|%([#0\- +]*)(\d*)(hh|h|ll|l|z|j)?([diuxXocs])?\{(\w+)\}")


def c_format(flags, width, conv, v, is_str):
    if is_str or conv == "s":
        s = str(v)
    elif conv in ("x", "X"):
        s = "%x" % (v & (2 ** 64 - 1)) if v < 0 else "%x" % v
        if conv == "X":
            s = s.upper()
        if "#" in flags and v != 0:
            s = ("0x" if conv == "x" else "0X") + s
    elif conv == "o":
        s = "%o" % v
        if "#" in flags and v != 0:
            s = "0" + s
    else:
        s = str(v)
        if v >= 0 and "+" in flags:
            s = "+" + s
        elif v >= 0 and " " in flags:
            s = " " + s
    if width:
        w = int(width)
        if "-" in flags:
            s = s.ljust(w)
        elif "0" in flags and not is_str:
            sign = ""
            if s and s[0] in "+- ":
                sign, s = s[0], s[1:]
            s = sign + s.rjust(w - len(sign), "0")
        else:
            s = s.rjust(w)
    return s


def expected_text(decl, values):
    byname = {n: (t, v) for (t, n), v in zip(decl.args, values)}

    def sub(m):
        if m.group(0) == "%%":
            return "%"          # only the template's own escapes, never inside substituted values
        flags, width, _ln, conv, name = m.groups()
        t, v = byname[name]
        return c_format(flags, width, conv or ("s" if t == "str" else "d"), v, t == "str")
    return _SPEC.sub(sub, decl.desc)


def recipe(mcv, regs):
    """(prefix, probe payload values or None, suffix, extra metadata) for a legal context."""
    P = T.P
    m = mcv[0]
    pre, suf, args, extra = [], [], None, {}
    r = regs.get(mcv)
    if mcv in ("KCO",):
        return [], None, ["KCI"], {}
    if mcv == "KCI":
        return ["KCO"], None, [], {}
    if r is not None:
        op = r[0]
        pair = [p for p in R.region_pairs(m) if p["enter"] == mcv or p["leave"] == mcv][0]
        if op == "push":
            return [], None, [pair["leave"]], {}
        return [pair["enter"]], None, [], {}
    t = mcv[1:]
    if m in ("V", "6") and t in ("Yc",):
        return [], [7, "kernel_type"], [], {}
    task = [(m + "Yc", [1, "typeA"])]
    tc = (m + "Tc", [1, 1])
    body = [1, 0] if m == "V" else [1]
    if m in ("V", "6") and t in ("Tc", "TC"):
        return task, [5, 1], [], {}
    if m in ("V", "6") and t == "Tx":
        return task + [tc], (body if mcv != "VTx" else [1, 0]), [(m + "Te", body)], {}
    if m in ("V", "6") and t == "Te":
        return task + [tc, (m + "Tx", body)], body, [], {}
    if m in ("V", "6") and t == "Tp":
        return task + [tc, (m + "Tx", body)], body, [(m + "Tr", body), (m + "Te", body)], {}
    if m in ("V", "6") and t == "Tr":
        return task + [tc, (m + "Tx", body), (m + "Tp", body)], body, [(m + "Te", body)], {}
    if m in ("V", "6") and t == "Pp":
        return [m + "Pr"], None, [], {}
    if m in ("V", "6") and t in ("Pr", "Pa"):
        return [], None, [m + "Pp"], {}
    if mcv == "OHp":
        return [], None, ["OHr"], {}
    if mcv == "OHr":
        return ["OHp"], None, [], {}
    if mcv == "OHc":
        return [], None, [], {}
    if mcv == "OHw":
        return ["OHp"], None, ["OHr"], {}
    if mcv == "OHC":
        return [], [0, 0x1234], [], {}
    if mcv == "OAs":
        return [], [1], [], {}
    if mcv == "OAr":
        return [], [1, 1], [], {}
    if mcv == "OCn":
        return [], [2], [], {}
    if mcv in ("OM[", "OM]", "OM="):
        extra = {"ovni.mark": {"1": {"title": "m", "chan_type": "single" if mcv == "OM=" else "stack"}}}
        if mcv == "OM]":
            return [("OM[", [5, 1])], [5, 1], [], extra
        return [], [5, 1], ([("OM]", [5, 1])] if mcv == "OM[" else []), extra
    return [], None, [], {}


def enum_listed(ctx):
    models, decls, bymcv = catalogue()
    for d in decls:
        if d.mcv in ("OHx", "OHe"):
            yield {"mcv": d.mcv, "seed": 0}
            continue
        for k in range((6 if d.mcv in ("OAs", "OAr") else 3) if ctx.tier == "quick" else 40):
            yield {"mcv": d.mcv, "seed": k}
        if d.model in ("V", "6"):
            yield {"mcv": d.mcv, "seed": 1, "state": "cooling"}
            yield {"mcv": d.mcv, "seed": 2, "state": "warming"}
        if d.model == "K":
            yield {"mcv": d.mcv, "seed": 1, "state": "paused"}
            yield {"mcv": d.mcv, "seed": 2, "state": "cooling"}
        yield {"mcv": d.mcv, "seed": 0, "repeat": 130 if ctx.tier == "quick" else 1100}


def gen_values(decl, seed):
    import hashlib
    vals = []
    for i, (t, n) in enumerate(decl.args):
        h = int(hashlib.sha256(("%s/%d/%d" % (decl.mcv, seed, i)).encode()).hexdigest()[:16], 16)
        if t == "str":
            # (by seed, so that the quick tier's three seeds include the empty string)
            vals.append(["label", "a b", "", "weird %s %%", "x%dy" % h][seed % 5] if seed else "label")
        else:
            lo, hi = RANGE[t]
            pick = [0, 1, lo, hi, lo + h % (hi - lo + 1), h % 1000][(h >> 8) % 6] if seed else (h % 100)
            vals.append(pick)
    return vals


def run_listed(case, ctx):
    models, decls, bymcv = catalogue()
    regs = R.regions()
    mcv = case["mcv"]
    d = bymcv[mcv]
    b = ctx.b("plain")
    name, ver = models[d.model]
    req = {"ovni": models["O"][1]}
    req[name] = ver
    pre, args, suf, extra = recipe(mcv, regs)
    # CPU numbering of the loom: logical index and physical id equal, shifted or crossed; an
    # affinity event names the CPU the thread is already on (index 0) or the other one
    numbering = [[[0, 0], [1, 1]], [[0, 4], [1, 5]], [[0, 1], [1, 0]]][case["seed"] % 3]
    if mcv == "OAs":
        args = [(case["seed"] // 3) % 2]

    def mk(x, clk):
        if isinstance(x, tuple):
            dd = bymcv[x[0]]
            pl = encode_args(dd, x[1])
            return T.jumbo(x[0], clk, pl) if dd.jumbo else T.ev(x[0], clk, pl.hex())
        return T.plain(x, clk)
    clk = 100
    evs = []
    if mcv != "OHx":
        evs.append(T.OHx(clk, 0))
    # thread state in which the event is emitted: the task-based models accept their
    # events from any ACTIVE thread (running, cooling, warming), the kernel model from any
    ctx_state = case.get("state", "running")
    closing = []
    if ctx_state == "cooling":
        evs.append(T.plain("OHc", clk + 1))
    elif ctx_state == "warming":
        evs += [T.plain("OHp", clk + 1), T.plain("OHw", clk + 2)]
        closing = ["OHr"]
    elif ctx_state == "paused":
        evs.append(T.plain("OHp", clk + 1))
        closing = ["OHr"]
    clk += 3
    for _rep in range(case.get("repeat", 1)):
        for x in pre:
            clk += 5
            evs.append(mk(x, clk))
        clk += 5
        if mcv == "OHx":
            probe = T.OHx(clk, 0, 3, 0xabc)
        elif mcv == "OHe":
            probe = None
        else:
            vals = args if args is not None else gen_values(d, 0)
            pl = encode_args(d, vals) if d.args else b""
            probe = T.jumbo(mcv, clk, pl) if d.jumbo else T.ev(mcv, clk, pl.hex())
        if probe:
            evs.append(probe)
        for x in suf:
            clk += 5
            evs.append(mk(x, clk))
    for x in closing:
        clk += 5
        evs.append(T.plain(x, clk))
    evs.append(T.plain("OHe", clk + 5))
    s = {"loom": "n.0", "pid": 1, "tid": 1, "app": 1, "cpus": numbering, "require": req, "events": evs,
         "extra": extra}
    bystanders = []
    if case["seed"] % 2 == 1 and case.get("repeat", 1) == 1:
        # other threads of the process that do not use (nor require) the model: one sorting
        # before and one after the thread under test
        s["pid"] = 3
        for bpid, btid in ((2, 7), (3, 10)):
            bystanders.append({"loom": "n.0", "pid": bpid, "tid": btid, "app": 1, "require": {"ovni": models["O"][1]},
                               "events": [T.OHx(90, -1), T.plain("OHe", clk + 50)]})
    if case.get("repeat", 1) > 1:
        # the same legal use many times over: asserted when the reference model says that the
        # repetition itself is legal (creating the same task twice, say, is not)
        if judge.model_verdict_u({"streams": [s]}, lint=True)[0] != "accept":
            return {"discard": True, "cls": ["repetition-not-legal"]}
    dd = ctx.newdir()
    try:
        T.write_trace({"streams": [s] + bystanders}, dd)
        r = tools.emu(b, dd, ("-l",))
        if not r.ok:
            raise Violation("listed event %s rejected in its legal context %s%s: %s" % (
                mcv, [e[0] for e in evs][:12], " (the use repeated %d times)" % case["repeat"] if case.get("repeat", 1) > 1 else "", r.brief()))
    finally:
        ctx.rmdir(dd)
    if case.get("repeat", 1) > 1:
        return {"nt": True, "cls": ["listed:repeated"], "key": "rep:" + mcv}
    # decoding with generated argument values
    vals = gen_values(d, case["seed"])
    pl = encode_args(d, vals) if d.args else b""
    e = T.jumbo(mcv, 777, pl) if d.jumbo else T.ev(mcv, 777, pl.hex())
    dd = ctx.newdir()
    try:
        T.write_trace({"streams": [{"loom": "n.0", "pid": 1, "tid": 1, "app": 1, "cpus": [[0, 0]], "path": "s", "events": [e]}]}, dd)
        r = tools.dump(b, dd)
        if not r.ok:
            raise Violation("ovnidump failed on listed event %s: %s" % (mcv, r.brief()))
        line = r.out.decode("latin-1").split("\n")[0]
        want = "%10d  %s  %s  %s" % (777, mcv, "s", expected_text(d, vals))
        if line != want:
            raise Violation("ovnidump decodes %s%s as %r, expected %r" % (mcv, vals, line, want))
    finally:
        ctx.rmdir(dd)
    return {"nt": bool(d.args), "cls": ["listed:" + d.model, "state:" + case.get("state", "running")],
            "key": "%s/%d/%s" % (mcv, case["seed"], case.get("state", "running"))}


# ---- (3) unlisted codes ------------------------------------------------------------------

def enum_unlisted(ctx):
    models, decls, bymcv = catalogue()
    for m in sorted(models):
        for c in PRINTABLE:
            yield {"model": m, "cat": c}


def run_unlisted(case, ctx):
    models, decls, bymcv = catalogue()
    m, c = case["model"], case["cat"]
    name, ver = models[m]
    req = {"ovni": models["O"][1]}
    req[name] = ver
    b = ctx.b("plain")
    cats = {d.mcv[1] for d in decls if d.model == m}
    regs = R.regions()
    # payload shapes of the listed events of this category: an unlisted sibling code
    # must be refused with such a well-formed payload too (and in the sibling's context)
    shapes = [("", [], {})]
    seen = set()
    for d in decls:
        if d.model == m and d.mcv[1] == c and d.args and not d.jumbo:
            pre, args, suf, extra = recipe(d.mcv, regs)
            pl = encode_args(d, args if args is not None else gen_values(d, 0)).hex()
            key = (len(pl), json.dumps(extra, sort_keys=True))
            if key in seen:
                continue
            seen.add(key)
            shapes.append((pl, pre, extra))
    # state left behind by a listed sibling: an unlisted code right *after* each listed event
    # of the category (thread out of the CPU after KCO, region open after an enter, task
    # running after Tx ...) must be refused as well; a sample of values per such context
    after = []
    seen = set()
    for d in decls:
        if d.model == m and d.mcv[1] == c and not d.jumbo:
            pre, args, suf, extra = recipe(d.mcv, regs)
            vals = args if args is not None else (gen_values(d, 0) if d.args else [])
            sib = (d.mcv, vals) if d.args else d.mcv
            pl = encode_args(d, vals).hex() if d.args else ""
            key = (d.mcv,)
            if key in seen:
                continue
            seen.add(key)
            after.append((pl, list(pre) + [sib], extra))
            if pl:
                after.append(("", list(pre) + [sib], extra))
    unl = [v for v in PRINTABLE if (m + c + v) not in bymcv]
    sample = set(unl[::max(1, len(unl) // 8)]) | {v.swapcase() for (_, pr, _) in after for v in [(pr[-1][0] if isinstance(pr[-1], tuple) else pr[-1])[2]]}
    n = 0
    for v in PRINTABLE:
        mcv = m + c + v
        if mcv in bymcv:
            continue
        if m == "O" and c in ("B", "U"):
            continue        # value byte ignored (documented exception)
        if mcv == "6TC":
            continue        # legacy, accepted with a warning
        for (pl, pre, extra) in shapes + (after if v in sample else []):
            clk = 100
            evs = [T.OHx(clk, 0)]
            for x in pre:
                clk += 2
                if isinstance(x, tuple):
                    dx = bymcv[x[0]]
                    px = encode_args(dx, x[1])
                    evs.append(T.jumbo(x[0], clk, px) if dx.jumbo else T.ev(x[0], clk, px.hex()))
                else:
                    evs.append(T.plain(x, clk))
            evs += [T.ev(mcv, clk + 2, pl), T.plain("OHe", clk + 4)]
            dd = ctx.newdir()
            try:
                T.write_trace({"streams": [{"loom": "n.0", "pid": 1, "tid": 1, "app": 1, "cpus": [[0, 0], [1, 1]], "require": req,
                                            "events": evs, "extra": extra}]}, dd)
                r = tools.emu(b, dd, ())
                if r.kind != "rejected":
                    raise Violation("unlisted code %r of model %s (payload %s, context %s): %s" % (
                        mcv, name, pl or "none", [e[0] for e in evs], "accepted" if r.ok else r.brief()))
            finally:
                ctx.rmdir(dd)
            n += 1
    ctx.stats.extra["unlisted_probes"] = ctx.stats.extra.get("unlisted_probes", 0) + n
    return {"nt": c in cats, "cls": ["unlisted:" + m], "key": m + c}


@st.composite
def dump_sequences(draw):
    """Many listed events of all models, in generated order, over 1-3 streams with interleaved clocks."""
    models, decls, bymcv = catalogue()
    n = draw(st.integers(2, 40))
    picks = [draw(st.integers(0, len(decls) - 1)) for _ in range(n)]
    # bias: neighbours sharing category and value characters across models
    if draw(st.booleans()):
        bycv = {}
        for i, d in enumerate(decls):
            bycv.setdefault(d.mcv[1:], []).append(i)
        groups = [g for g in bycv.values() if len(g) > 1]
        for k in range(0, n - 1, 2):
            g = draw(st.sampled_from(groups))
            a, b_ = draw(st.permutations(g))[:2]
            picks[k], picks[k + 1] = a, b_
    return {"picks": picks, "seeds": [draw(st.integers(0, 5)) for _ in range(n)], "nstreams": draw(st.integers(1, 3)),
            "where": [draw(st.integers(0, 2)) for _ in range(n)]}


def run_dump_seq(case, ctx):
    models, decls, bymcv = catalogue()
    b = ctx.b("plain")
    ns = case["nstreams"]
    streams = [{"loom": "n.0", "pid": 1, "tid": 1 + i, "app": 1, "cpus": [[0, 0]] if i == 0 else None,
                "path": "s%d" % i, "events": []} for i in range(ns)]
    expect = []
    clk = 1000
    for k, (pi, sd, wh) in enumerate(zip(case["picks"], case["seeds"], case["where"])):
        d = decls[pi]
        vals = gen_values(d, sd)
        pl = encode_args(d, vals) if d.args else b""
        clk += 1 + (k % 3)
        e = T.jumbo(d.mcv, clk, pl) if d.jumbo else T.ev(d.mcv, clk, pl.hex())
        si = wh % ns
        streams[si]["events"].append(e)
        expect.append("%10d  %s  %s  %s" % (clk, d.mcv, "s%d" % si, expected_text(d, vals)))
    dd = ctx.newdir()
    try:
        T.write_trace({"streams": streams}, dd)
        r = tools.dump(b, dd)
        if not r.ok:
            raise Violation("ovnidump failed on a sequence of listed events: %s" % r.brief())
        lines = [l for l in r.out.decode("latin-1").split("\n") if l]
        if lines != expect:
            k = next((i for i, (a, b_) in enumerate(zip(lines, expect)) if a != b_), min(len(lines), len(expect)))
            raise Violation("ovnidump line %d of a %d-event sequence: %r, expected %r (previous event: %r)" % (
                k, len(expect), lines[k] if k < len(lines) else None, expect[k] if k < len(expect) else None,
                expect[k - 1] if k else None))
    finally:
        ctx.rmdir(dd)
    return {"nt": True, "cls": ["dump-sequence"]}


def parts(tier):
    return [
        Part("ovnievents-vs-doc", run_catalogue, enum=lambda ctx: iter([{"catalogue": 1}])),
        Part("listed-events", run_listed, enum=enum_listed),
        Part("dump-sequences", run_dump_seq, strategy=lambda ctx: dump_sequences(), budget={"quick": 1500, "thorough": 30000}),
        Part("unlisted-codes", run_unlisted, enum=enum_unlisted, cap_s={"quick": 400, "thorough": 1200}),
    ]
