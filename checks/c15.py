"""C15 — metadata merge is distribution-independent; conflicts are refused cleanly (DESIGN section 4, C15)."""
import json, os, filecmp
from hypothesis import strategies as st
from vlib.runner import Part, Violation
from vlib import gen, refmodel as R, trace as T, judge, tools, pv, compare

ID = "C15"
VARIANTS = ["asan"]
TARGETS = ["ovniemu"]
LEVEL = "exploration"
RULE = ("a base description (1-3 looms, 1-3 processes each, 1-3 threads, CPU sets with phyid != index, MPI ranks "
        "on all or no processes) and two metamorphic variants of it differing in which thread(s) of a process "
        "carry app_id/rank/nranks, how loom_cpus is partitioned, duplicated and ordered over the loom's threads "
        "(incl. decreasing index order and higher indices read first) and in stream creation order; both variants "
        "must be accepted, give byte-identical thread/cpu .row/.prv/.pcf and match the reference layout.  Then "
        "single contradictions (two app ids / ranks / nranks in a process, index<->phyid conflicts, duplicate TID, "
        "loom without CPUs, process without app id, rank on only some processes, index gap, rank >= nranks): "
        "ovniemu (ASan) must exit 1 with an error line and no signal.  Non-trivial = a per-process or per-loom "
        "attribute carried by a thread that is not first in path order; distinct = (base, variants).")
ASSUMPTIONS = ["CPU indices form 0..N-1 per loom (trace_spec.md); a gap is treated as a contradiction"]

CONTRA = ["appid", "rank", "nranks", "index2phy", "phy2index", "duptid", "nocpus", "noappid",
          "partialrank", "indexgap", "rank>=nranks", "negindex", "emptycpus"]


@st.composite
def bases(draw):
    nlooms = draw(st.integers(1, 3))
    ranked = draw(st.booleans())
    looms = []
    pid = 0
    tid = 0
    rank = 0
    order = draw(st.permutations(list(range(nlooms))))
    # loom names: distinct hosts, or several looms of one host ("h0", "h0.aux", "h0.1"):
    # there the path order (loom.h0.aux/ < loom.h0/) differs from the name order
    samehost = draw(st.booleans())
    suffixes = draw(st.permutations(["", ".aux", ".1", ".b"]))
    for li in range(nlooms):
        ncpus = draw(st.integers(1, 4))
        phys = draw(st.lists(st.integers(0, 12), min_size=ncpus, max_size=ncpus, unique=True))
        procs = []
        for pi in range(draw(st.integers(1, 3))):
            pid += draw(st.integers(1, 4))
            ths = []
            for ti in range(draw(st.integers(1, 3))):
                tid += draw(st.integers(1, 3))
                ths.append(tid)
            procs.append({"pid": pid, "tids": ths, "app": draw(st.integers(1, 3)), "rank": None})
        lname = ("h0%s" % suffixes[li]) if samehost else "h%d.%d" % (order[li], li)
        looms.append({"name": lname, "cpus": [[i, p] for i, p in enumerate(phys)], "procs": procs})
    if ranked:
        allp = [p for l in looms for p in l["procs"]]
        rk = draw(st.permutations(list(range(len(allp)))))
        for p, r in zip(allp, rk):
            p["rank"] = [r, len(allp)]
    return {"looms": looms}


@st.composite
def variants(draw, base):
    """How the union metadata is spread over the streams."""
    v = {"app": {}, "rank": {}, "cpus": {}, "mkorder": None}
    n = 0
    for li, l in enumerate(base["looms"]):
        tl = [(pi, t) for pi, p in enumerate(l["procs"]) for t in p["tids"]]
        # cpus: every cpu carried by >= 1 thread of the loom; order shuffled per carrier
        carriers = {}
        for c in l["cpus"]:
            who = draw(st.lists(st.integers(0, len(tl) - 1), min_size=1, max_size=2, unique=True))
            for w in who:
                carriers.setdefault(w, []).append(c)
        for w, cl in carriers.items():
            cl2 = draw(st.permutations(cl))
            v["cpus"]["%d/%d" % (li, w)] = [list(c) for c in cl2]
        for pi, p in enumerate(l["procs"]):
            k = len(p["tids"])
            who = draw(st.lists(st.integers(0, k - 1), min_size=1, max_size=k, unique=True))
            v["app"]["%d/%d" % (li, pi)] = sorted(who)
            who = draw(st.lists(st.integers(0, k - 1), min_size=1, max_size=k, unique=True))
            v["rank"]["%d/%d" % (li, pi)] = sorted(who)
            n += k
    v["mkorder"] = list(draw(st.permutations(list(range(n)))))
    return v


def build(base, var, contra=None):
    """-> trace description"""
    streams = []
    clk = 1000
    for li, l in enumerate(base["looms"]):
        k = 0
        for pi, p in enumerate(l["procs"]):
            for ti, tid in enumerate(p["tids"]):
                s = {"loom": l["name"], "pid": p["pid"], "tid": tid, "app": None, "events": []}
                if ti in var["app"]["%d/%d" % (li, pi)]:
                    s["app"] = p["app"]
                if p["rank"] is not None and ti in var["rank"]["%d/%d" % (li, pi)]:
                    s["rank"] = list(p["rank"])
                cl = var["cpus"].get("%d/%d" % (li, k))
                if cl is not None:
                    s["cpus"] = [list(c) for c in cl]
                cpu = k if k < len(l["cpus"]) else -1           # own physical CPU, the rest on the vCPU
                if (tid + pi) % 4 == 0:
                    cpu = -1
                clk += 3
                s["events"].append(T.OHx(clk, cpu))
                clk += 3
                s["events"].append(T.mark("=", clk, tid, 0) if False else T.plain("OB.", clk))
                streams.append(s)
                k += 1
    for s in streams:
        clk += 2
        s["events"].append(T.plain("OHe", clk))
    tr = {"streams": streams, "mkorder": var["mkorder"]}
    return tr


def apply_contra(tr, kind, a, b):
    """Mutates tr into a contradictory trace; returns description or None."""
    ss = tr["streams"]
    s = ss[a % len(ss)]
    same_proc = [x for x in ss if (x["loom"], x["pid"]) == (s["loom"], s["pid"])]
    same_loom = [x for x in ss if x["loom"] == s["loom"]]
    if kind == "appid":
        if len(same_proc) < 2:
            return None
        same_proc[0]["app"] = 1
        same_proc[1]["app"] = 2
        return "two app ids in one process"
    if kind in ("rank", "nranks"):
        if len(same_proc) < 2:
            return None
        n = len(ss) + 3
        same_proc[0]["rank"] = [0, n]
        same_proc[1]["rank"] = [1, n] if kind == "rank" else [0, n + 1]
        for x in ss:
            if x not in same_proc and x.get("rank") is None:
                pass
        return "two %s in one process" % kind
    if kind in ("index2phy", "phy2index"):
        cl = None
        for x in same_loom:
            if x.get("cpus"):
                cl = x["cpus"]
                break
        if cl is None:
            return None
        c = cl[b % len(cl)]
        other = same_loom[(b + 1) % len(same_loom)]
        extra = [c[0], c[1] + 50] if kind == "index2phy" else [c[0] + 50, c[1]]
        other["cpus"] = (other.get("cpus") or []) + [extra]
        return "%s conflict %s vs %s" % (kind, c, extra)
    if kind == "duptid":
        dup = json.loads(json.dumps(s))
        dup["path"] = "loom.%s/proc.%d/thread.%d.copy" % (s["loom"], s["pid"], s["tid"])
        dup["events"] = []
        ss.append(dup)
        if tr.get("mkorder"):
            tr["mkorder"].append(len(ss) - 1)
        return "duplicate tid %d" % s["tid"]
    if kind == "nocpus":
        for x in same_loom:
            x["cpus"] = None
            # its threads run on the virtual CPU only, so that nothing but the missing CPU list is wrong
            for e in x.get("events", []):
                if e[0] in ("OHx", "OAs") and len(e[2]) >= 8:
                    e[2] = "ffffffff" + e[2][8:]
            x["events"] = [e for e in x.get("events", []) if e[0] != "OAr"]
        return "loom without cpus"
    if kind == "emptycpus":
        s["cpus"] = []
        return "empty loom_cpus array"
    if kind == "noappid":
        for x in same_proc:
            x["app"] = None
        return "process without app id"
    if kind == "partialrank":
        procs = sorted({(x["loom"], x["pid"]) for x in same_loom})
        if len(procs) < 2:
            return None
        n = len(ss) + 5
        for x in ss:
            x.pop("rank", None)
        # some processes of the loom (at least one, not all) carry a rank: the first one in
        # sort order, the last one, or the ones picked by b
        keep = [p_ for i, p_ in enumerate(procs) if (b >> i) & 1]
        if not keep or len(keep) == len(procs):
            keep = [procs[b % len(procs)]]
        for x in ss:
            if (x["loom"], x["pid"]) in keep:
                x["rank"] = [keep.index((x["loom"], x["pid"])), n]
        return "rank on %d of %d processes of a loom" % (len(keep), len(procs))
    if kind == "indexgap":
        for x in same_loom:
            if x.get("cpus"):
                mx = max(c[0] for y in same_loom for c in (y.get("cpus") or []))
                x["cpus"] = x["cpus"] + [[mx + 2, 99]]
                return "cpu index gap"
        return None
    if kind == "rank>=nranks":
        for x in ss:
            x.pop("rank", None)
        for x in same_proc:
            x["rank"] = [3, 3]
        return "rank >= nranks"
    if kind == "negindex":
        for x in same_loom:
            if x.get("cpus"):
                x["cpus"] = x["cpus"] + [[-1, 77]] if b % 2 else x["cpus"] + [[77, -1]]
                return "negative cpu index/phyid"
        return None
    return None


@st.composite
def cases(draw):
    base = draw(bases())
    va = draw(variants(base))
    vb = draw(variants(base))
    contra = draw(st.one_of(st.none(), st.sampled_from(CONTRA)))
    return {"base": base, "va": va, "vb": vb, "contra": contra, "a": draw(st.integers(0, 1000)), "b": draw(st.integers(0, 1000))}


def nontrivial(base, var):
    for li, l in enumerate(base["looms"]):
        if any(int(k.split("/")[1]) != 0 for k in var["cpus"] if k.startswith("%d/" % li)):
            return True
        for pi, p in enumerate(l["procs"]):
            if 0 not in var["app"]["%d/%d" % (li, pi)]:
                return True
    return False


def run(case, ctx):
    base = case["base"]
    outs = []
    dirs = []
    b = ctx.b("asan")
    try:
        if case["contra"]:
            tr = build(base, case["va"])
            desc = apply_contra(tr, case["contra"], case["a"], case["b"])
            if desc is None:
                return {"discard": True, "cls": ["contra-not-applicable:" + case["contra"]]}
            v, info, _m = judge.model_verdict_u(tr, lint=True)
            if v != "reject":
                raise Violation("harness: reference model does not reject contradiction %s" % desc)
            d = ctx.newdir()
            dirs.append(d)
            T.write_trace(tr, d)
            r = tools.emu(b, d, ("-l",))
            if r.kind != "rejected":
                raise Violation("contradiction [%s]: ovniemu -> %s" % (desc, r.brief()))
            if b"ERROR" not in r.err:
                raise Violation("contradiction [%s]: no error message" % desc)
            return {"nt": True, "cls": ["contra:" + case["contra"]], "key": None}
        for var in (case["va"], case["vb"]):
            tr = build(base, var)
            v, info, model = judge.model_verdict_u(tr, lint=True)
            if v != "accept":
                raise Violation("harness: reference model rejects a consistent variant: %s" % (info,))
            d = ctx.newdir()
            dirs.append(d)
            T.write_trace(tr, d)
            r = tools.emu(b, d, ("-l",))
            if not r.ok:
                raise Violation("consistent metadata variant not accepted: %s" % r.brief())
            probs = compare.compare(model, d)
            names = R.row_names(model.looms, model.threads, model.cpus)
            probs += pv.check_wellformed(d, expect_rows=names)
            if probs:
                raise Violation("variant output differs from the documented layout: " + "; ".join(probs[:3]))
            outs.append(d)
        for f in ("thread.row", "cpu.row", "thread.prv", "cpu.prv", "thread.pcf", "cpu.pcf"):
            fa, fb = os.path.join(outs[0], f), os.path.join(outs[1], f)
            if open(fa, "rb").read() != open(fb, "rb").read():
                raise Violation("%s differs between two distributions of the same metadata" % f)
        nt = nontrivial(base, case["va"]) or nontrivial(base, case["vb"])
        return {"nt": nt, "cls": ["variants", "looms:%d" % len(base["looms"])]}
    finally:
        for d in dirs:
            ctx.rmdir(d)


def parts(tier):
    return [Part("metadata", run, strategy=lambda ctx: cases(), budget={"quick": 5000, "thorough": 80000})]
