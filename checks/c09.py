"""C09 — crash consistency (DESIGN section 4, C09)."""
import json, os, shutil
from hypothesis import strategies as st
from vlib.runner import Part, Violation
from vlib import rt, obs, inject, tools, trace as T

ID = "C09"
VARIANTS = ["plain"]
TARGETS = ["ovni-static", "ovniemu"]
LEVEL = "fault_enumeration"
RULE = ("small conformant libovni programs (1-3 threads, explicit flushes, events after OHe, stream sizes biased "
        "so that multiples of the 4096-byte stdio block fall on event boundaries), in direct and OVNI_TMPDIR mode, "
        "with a generated readdir order (LD_PRELOAD shim) so that both 'metadata first' and 'data first' "
        "relocation orders occur, a quarter of the programs with metadata larger than a stdio block (130 CPUs), and in a third of the programs every write() of the runtime split in two real system calls (kill inside a logical write); one dry run under strace lists the runtime's system calls, then ONE RUN PER "
        "CRASH POINT: SIGKILL injected at the entry of the k-th mkdir/openat/write/close/unlink/rmdir/getdents64/"
        "read of a thread, for every k.  Progress witness F_t = the larger of (bytes the killed run successfully wrote to thread t's primary stream.obs, from the strace log) and (bytes covered by the ovni_flush() calls that had returned, from the driver's log).  Oracle on the directory handed to ovniemu: (S1) if "
        "ovniemu -l exits 0, every visible stream holds at least its F_t flushed bytes, equal to the expected "
        "prefix; (S2) a visible stream.json that says finished=1 has all F_t bytes beside it.  "
        "In OVNI_TMPDIR mode two more runs without any kill set a file size limit (RLIMIT_FSIZE, SIGXFSZ ignored) right before a thread is freed, so that the relocation cannot complete: (S2) applies unchanged.  Non-trivial = crash point inside ovni_thread_free; distinct = (program, readdir order, syscall, k).")
ASSUMPTIONS = ["crash points are system-call boundaries of generated programs (a kill inside a logical write of the runtime is emulated by splitting it in two system calls; stdio-internal writes are not split)",
               "strace 'when=' counts per thread and per system call name (observed)"]


def setup(ctx):
    b = ctx.b("plain")
    return {"drv": inject.compile_static_driver(b), "shim": rt.compile_shim(b), "rtdrv": rt.compile_driver(b)}


@st.composite
def programs(draw):
    nth = draw(st.integers(1, 3))
    threads = []
    clk = 100
    for t in range(nth):
        ops = []
        off = 8
        n = draw(st.integers(1, 5))
        target_blocks = draw(st.integers(0, 2))
        # OHx first
        ops.append(["ev", "OHx", 28])
        off += 28
        dead = False
        for seg in range(n):
            k = draw(st.integers(0, 30))
            for _ in range(k):
                sz = draw(st.sampled_from([12, 12, 12, 14, 16, 20, 28]))
                ops.append(["ev", "OB.", sz])
                off += sz
            if not dead and draw(st.integers(0, 2)) == 0:
                ops.append(["ev", "OHe", 12])
                off += 12
                dead = True
            if target_blocks and draw(st.booleans()):
                # pad with bursts so that the next 4096 multiple is an event boundary
                goal = (off // 4096 + 1) * 4096
                if target_blocks == 2:
                    goal += 4096
                while goal - off >= 24 or goal - off in (12, 14, 16, 18, 20, 22):
                    r = goal - off
                    sz = 12 if (r >= 40 or r in (12, 24)) else (r if r <= 28 else 12)
                    if r - sz in range(1, 12):
                        sz = 12
                    if r - sz in range(1, 12):
                        break
                    ops.append(["ev", "OB.", sz])
                    off += sz
            if draw(st.integers(0, 1)) == 0:
                ops.append(["flush"])
                off += 24
        if not dead:
            ops.append(["ev", "OHe", 12])
        if t == 0 and draw(st.integers(0, 5)) == 0:
            # big jumbo bursts: the 2 MiB event buffer overflows and the library flushes by itself,
            # from inside ovni_ev_jumbo_emit or, with the small events around them, from ovni_ev_emit
            # (one such program in three: a stream beyond 8 MiB)
            for _ in range(3 if draw(st.integers(0, 2)) else 10):
                ops.insert(draw(st.integers(1, len(ops))), ["jumbo", draw(st.integers(700000, 1040000))])
        more = draw(st.integers(0, 40))
        for _ in range(more):
            ops.append(["ev", "OB.", 12])
        ops.append(["flush"])
        threads.append(ops)
    # one program in ten initialises a thread again (same tid) after ovni_thread_free():
    # the library is expected to refuse it; if a tree accepts it, the crash points of
    # the second life are enumerated like any others
    reinit = draw(st.sampled_from([False] * 11 + [True]))      # (sampled_from is uniform; small integer ranges are not)
    return {"threads": threads, "tmpdir": draw(st.sampled_from([True, True, False])), "readdir": draw(st.integers(0, 1)),
            "interleave": draw(st.integers(0, 1000)), "short": draw(st.sampled_from([None, None, "half"])),
            "reinit": reinit,
            # one program in four has metadata larger than a stdio block (many CPUs): stream.json then
            # takes several write() calls
            "bigmeta": draw(st.integers(0, 3)) == 0,
            # OVNI_TMPDIR on another file system than the trace directory (as in the documented use: node-local
            # storage during the run, the shared file system at the end)
            # or below the trace directory itself (the emulator then walks through it as well)
            "xfs": draw(st.sampled_from([False, True, True, "nested"]))}


def to_script(case):
    lines = ["MODE turn", "P init 1 %s 5" % rt.hx("node.1")]
    nth = len(case["threads"])
    for t in range(nth):
        lines.append("T%d init %d" % (t, 70 + t))
        if t == 0:
            for c in range(130 if case.get("bigmeta") else 3):
                lines.append("T0 cpu %d %d" % (c, c))
    clk = 1000
    # round-robin interleaving in chunks
    idx = [0] * nth
    step = 1 + case["interleave"] % 7
    alive = True
    while alive:
        alive = False
        for t in range(nth):
            ops = case["threads"][t]
            for _ in range(step):
                if idx[t] >= len(ops):
                    break
                alive = True
                op = ops[idx[t]]
                idx[t] += 1
                clk += 3
                if op[0] == "flush":
                    lines.append("T%d flush" % t)
                elif op[0] == "jumbo":
                    lines.append("T%d jumbo %s now %d %d" % (t, rt.hx("OB."), op[1], clk % 251))
                elif op[1] == "OHx":
                    lines.append("T%d ev %s now %s" % (t, rt.hx("OHx"), T.P("iiQ", t, -1, 0)))
                else:
                    # clocks from ovni_clock_now() (conformant); payload = sequence number
                    n = op[2] - 12
                    pl = (clk.to_bytes(8, "little") * 2)[:n].hex() if n else ""
                    lines.append(("T%d ev %s now %s" % (t, rt.hx(op[1]), pl)).rstrip())
    for t in range(nth):
        lines.append("T%d free" % t)
    if case.get("reinit"):
        lines.append("T0 init 70")
        lines.append("T0 ev %s now %s" % (rt.hx("OHx"), T.P("iiQ", 0, -1, 0)))
        for i in range(30):
            lines.append("T0 ev %s now %s" % (rt.hx("OB."), (90000 + i).to_bytes(4, "little").hex()))
        lines.append("T0 ev %s now" % rt.hx("OHe"))
        lines.append("T0 flush")
        lines.append("T0 free")
    lines.append("P fini")
    return lines


def norm(data, nbytes):
    """decoded events of the first nbytes (must end on an event boundary), flush marker clocks masked"""
    evs = obs.decode_stream(data[:nbytes])
    return [(e.mcv, bytes(e.payload)) for e in evs]      # clocks come from ovni_clock_now(): masked


def thread_dir(root, t):
    return os.path.join(root, "loom.node.1", "proc.5", "thread.%d" % (70 + t))


def run(case, ctx):
    lines = to_script(case)
    script = "\n".join(lines) + "\n"
    nth = len(case["threads"])
    b = ctx.b("plain")
    # short: libovni's own write() calls become two real system calls, so the
    # enumeration also kills the process in the middle of a logical write
    env = rt.shim_env(ctx.shared["shim"], readdir=case["readdir"], short=case.get("short"))
    base = ctx.newdir()
    npoints = 0
    nontrivial = 0
    xdir = ctx.otherfs_dir() if (case["tmpdir"] and case.get("xfs") is True) else None

    def tmode(wdir):
        if case["tmpdir"] and case.get("xfs") == "nested":
            return os.path.join(wdir, "trace", "tmp")
        if not case["tmpdir"] or xdir is None:
            return case["tmpdir"]
        p = os.path.join(xdir, "tmp")
        shutil.rmtree(p, ignore_errors=True)
        return p
    try:
        dry = inject.run(ctx.shared["drv"], script, os.path.join(base, "dry"), tmpdir_mode=tmode(os.path.join(base, "dry")), env=env, nthreads=nth)
        if dry.rc != 0:
            if case.get("reinit") and dry.err.strip():
                return {"discard": True, "cls": ["reinit-refused-by-library"]}
            raise Violation("dry run failed: rc=%s %s" % (dry.rc, dry.err[-300:]))
        full = {}
        for t in range(nth):
            full[t] = open(os.path.join(thread_dir(dry.tracedir, t), "stream.obs"), "rb").read()
        # API-level progress: bytes that an ovni_flush() which RETURNED has flushed.  The
        # j-th explicit flush covers everything before the j-th OF[ marker of the
        # fault-free stream (its own markers are emitted after the write).
        flush_lines = {t: [i for i, l in enumerate(lines, 1) if l == "T%d flush" % t] for t in range(nth)}
        marker_off = {}
        for t in range(nth):
            offs = [e.offset for e in obs.decode_stream(full[t]) if e.mcv == "OF["]
            marker_off[t] = offs
        cnt = inject.counts(dry.calls)
        # in which (syscall,k) region does thread_free of some thread lie: from its final stream.json write on
        points = [(s, k) for s in inject.SYSCALLS for k in inject.select_k(cnt.get(s, 0))]
        counters = [0]

        def examine(r, label, inserted_at=None):
            primary_root = r.tmpdir if case["tmpdir"] else r.tracedir
            F = inject.flushed_bytes(r.calls, primary_root)
            opens = {}
            for (pid, name, args, ret, rest) in r.calls:
                if name == "openat" and "stream.json" in args and "O_TRUNC" in args and primary_root in args:
                    opens[pid] = opens.get(pid, 0) + 1
            in_free = any(v >= 2 for v in opens.values())
            if in_free:
                counters[0] += 1
            os.makedirs(os.path.join(r.tracedir, "cfg"), exist_ok=True) if os.path.isdir(r.tracedir) else None
            accepted = False
            if os.path.isdir(r.tracedir):
                er = tools.emu(b, r.tracedir, ("-l",))
                accepted = er.ok
            for t in range(nth):
                vis = thread_dir(r.tracedir, t)
                jpath = os.path.join(vis, "stream.json")
                if not os.path.exists(jpath):
                    continue
                ppath = os.path.normpath(os.path.join(thread_dir(primary_root, t), "stream.obs"))
                ft = F.get(ppath, 0)
                log = r.logs.get("T%d" % t, {})
                j = sum(1 for ln in flush_lines[t] if log.get(ln + (1 if inserted_at is not None and ln > inserted_at else 0), ("", []))[0] == "ok")
                if j > 0:
                    f_api = marker_off[t][j - 1] if j - 1 < len(marker_off[t]) else len(full[t])
                    ft = max(ft, f_api)
                try:
                    data = open(os.path.join(vis, "stream.obs"), "rb").read()
                except OSError:
                    data = b""
                finished = False
                try:
                    finished = json.load(open(jpath)).get("ovni", {}).get("finished") == 1
                except Exception:
                    pass
                what = "%s (%s mode, readdir order %d), thread %d: %d bytes flushed, visible stream.obs has %d bytes" % (
                    label, "TMPDIR" if case["tmpdir"] else "direct", case["readdir"], 70 + t, ft, len(data))
                if finished and len(data) < ft:
                    raise Violation("S2: stream marked finished but flushed bytes are missing: " + what)
                if accepted and len(data) < ft:
                    raise Violation("S1: ovniemu -l accepted the trace but a visible stream lacks flushed events: " + what)
                if (finished or accepted) and ft > 0:
                    try:
                        if norm(data, ft) != norm(full[t], ft):
                            raise Violation("visible stream content differs from the flushed prefix: " + what)
                    except obs.DecodeError as e:
                        raise Violation("visible stream prefix does not decode (%s): %s" % (e, what))
            if accepted and case["tmpdir"] and case.get("xfs") == "nested":
                # OVNI_TMPDIR lies below the trace directory: the half-relocated streams are visible too.
                # (S1) an accepted trace holds, for every thread that has a stream.json anywhere in it,
                # the flushed bytes of that thread beside one of them.
                for t in range(nth):
                    ppath = os.path.normpath(os.path.join(thread_dir(primary_root, t), "stream.obs"))
                    ft = F.get(ppath, 0)
                    locs = [x for x in (thread_dir(r.tracedir, t), thread_dir(primary_root, t)) if os.path.exists(os.path.join(x, "stream.json"))]
                    if not locs or ft == 0:
                        continue
                    sizes = []
                    for x in locs:
                        try:
                            sizes.append(os.path.getsize(os.path.join(x, "stream.obs")))
                        except OSError:
                            sizes.append(0)
                    if max(sizes) < ft:
                        raise Violation("S1: ovniemu -l accepted the trace although the stream of thread %d, visible in it (%s), lacks flushed events: "
                                        "%s (TMPDIR below the trace directory), %d bytes flushed, %s bytes beside its stream.json"
                                        % (70 + t, ", ".join(os.path.relpath(x, r.tracedir) for x in locs), label, ft, sizes))

        for (s, k) in points:
            wd = os.path.join(base, "k")
            shutil.rmtree(wd, ignore_errors=True)
            r = inject.run(ctx.shared["drv"], script, wd, tmpdir_mode=tmode(wd), env=env, nthreads=nth,
                           inject="%s:signal=SIGKILL:when=%d" % (s, k))
            npoints += 1
            if not r.killed:
                continue
            examine(r, "crash at entry of %s #%d" % (s, k))
        if case["tmpdir"]:
            # no kill at all: the relocation of a finished stream runs into a file size limit
            # (set right before the thread is freed); "finished only after all flushed bytes are in place"
            frees = [i for i, l in enumerate(lines) if l.endswith(" free")]
            biggest = max(len(v) for v in full.values())
            limits = [L for L in (biggest // 2, biggest - 1, 64) if 0 < L < biggest]
            if ctx.tier == "quick":
                limits = limits[:2]
            for li, L in enumerate(limits):
                if not frees:
                    break
                at = frees[li % len(frees)]
                scriptL = "\n".join(lines[:at] + ["%s fsize %d" % (lines[at].split()[0], L)] + lines[at:]) + "\n"
                wd = os.path.join(base, "k")
                shutil.rmtree(wd, ignore_errors=True)
                r = inject.run(ctx.shared["drv"], scriptL, wd, tmpdir_mode=tmode(wd), env=env, nthreads=nth)
                npoints += 1
                examine(r, "no crash, file size limit of %d bytes set right before '%s'" % (L, lines[at]), inserted_at=at)
        if not case.get("reinit"):
            # no kill either: the process is finalised while the last thread still has unflushed
            # events; that thread then flushes and frees.  Whatever the library does about the late
            # flush (it aborts), a stream that ends up marked finished holds everything a returned
            # ovni_flush() covered.
            last_flush = max(i for i, l in enumerate(lines) if l == "T%d flush" % (nth - 1))
            body = [l for l in lines if l != "P fini"]
            scriptF = "\n".join(body[:last_flush] + ["P fini"] + body[last_flush:]) + "\n"
            wd = os.path.join(base, "k")
            shutil.rmtree(wd, ignore_errors=True)
            r = inject.run(ctx.shared["drv"], scriptF, wd, tmpdir_mode=tmode(wd), env=env, nthreads=nth)
            npoints += 1
            examine(r, "no crash, ovni_proc_fini called before the last flush of thread %d" % (70 + nth - 1), inserted_at=last_flush)
        nontrivial = counters[0]
        ctx.stats.extra["crash_points"] = ctx.stats.extra.get("crash_points", 0) + npoints
        ctx.stats.extra["crash_points_in_thread_free"] = ctx.stats.extra.get("crash_points_in_thread_free", 0) + nontrivial
        return {"nt": nontrivial > 0, "cls": ["mode:" + ("tmpdir" if case["tmpdir"] else "direct"), "threads:%d" % nth,
                                               "readdir:%d" % case["readdir"]] + (["short-writes"] if case.get("short") else []) + (["tmpdir-on-another-file-system"] if xdir else []) + (["tmpdir-below-tracedir"] if case["tmpdir"] and case.get("xfs") == "nested" else []),
                "sample": {"threads": [len(x) for x in case["threads"]], "tmpdir": case["tmpdir"], "crash_points": npoints}}
    finally:
        ctx.rmdir(base)
        if xdir:
            ctx.rmdir(xdir)


@st.composite
def concurrent(draw):
    nth = draw(st.integers(2, 8))
    return {"n": nth, "sizes": [draw(st.integers(3000, 900000)) for _ in range(nth)],
            "bursts": [draw(st.integers(0, 40)) for _ in range(nth)]}


def run_concurrent(case, ctx):
    """No kill: several threads of one process relocate their streams from OVNI_TMPDIR at the
    same time (thread_free released by a barrier).  (S2) every stream that is marked finished
    in the final directory holds exactly the bytes its thread flushed."""
    n = case["n"]
    lines = ["MODE free", "P init 1 %s 5" % rt.hx("node.1")]
    for t in range(n):
        w = "T%d " % t
        lines.append(w + "init %d" % (300 + t))
        lines.append(w + "cpu %d %d" % (t, 10 + t))
        lines.append(w + "ev %s now %s" % (rt.hx("OHx"), T.P("iiQ", -1, -1, 0)))
        for _ in range(case["bursts"][t]):
            lines.append(w + "ev %s now" % rt.hx("OB."))
        lines.append(w + "jumbo %s now %d %d" % (rt.hx("OB."), case["sizes"][t], t))
        lines.append(w + "ev %s now" % rt.hx("OHe"))
        lines.append(w + "flush")
        lines.append(w + "barrier")
        lines.append(w + "free")
    lines.append("P fini")
    d = ctx.newdir()
    try:
        rr = rt.run_script(ctx.shared["rtdrv"], lines, d, tmpdir_mode=True, cpu_s=120, wall_s=300)
        if rr.res.kind != "ok":
            raise Violation("concurrent program did not finish: %s" % rr.res.brief())
        for t in range(n):
            sd = os.path.join(rr.tracedir, "loom.node.1", "proc.5", "thread.%d" % (300 + t))
            try:
                fin = json.load(open(os.path.join(sd, "stream.json"))).get("ovni", {}).get("finished") == 1
            except Exception:
                fin = False
            if not fin:
                continue
            try:
                data = open(os.path.join(sd, "stream.obs"), "rb").read()
            except OSError:
                data = b""
            try:
                evs = obs.decode_stream(data)
            except obs.DecodeError as e:
                raise Violation("S2: thread %d is marked finished in the final directory but its stream does not decode (%s); "
                                "%d threads relocated together" % (300 + t, e, n))
            prob = rt.match_stream(rt.expected_stream(lines, rr, "T%d" % t), evs)
            if prob:
                raise Violation("S2: thread %d is marked finished in the final directory but its stream is not what it flushed: %s; "
                                "%d threads relocated together" % (300 + t, prob, n))
        return {"nt": True, "cls": ["concurrent-relocation:%d" % n]}
    finally:
        ctx.rmdir(d)


def parts(tier):
    return [Part("crash-points", run, strategy=lambda ctx: programs(), budget={"quick": 56, "thorough": 1200},
                 cap_s={"quick": 500, "thorough": 3400}),
            Part("concurrent-relocation", run_concurrent, strategy=lambda ctx: concurrent(),
                 budget={"quick": 400, "thorough": 6000}, replay_any=30)]
