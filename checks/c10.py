"""C10 — I/O faults are never silent (DESIGN section 4, C10)."""
import json, os, shutil
from hypothesis import strategies as st
from vlib.runner import Part, Violation
from vlib import rt, obs, inject, tools
from checks import c09

ID = "C10"
VARIANTS = ["plain"]
TARGETS = ["ovni-static", "ovniemu"]
LEVEL = "fault_enumeration"
RULE = ("the C09 programs (1-3 threads, direct and OVNI_TMPDIR mode, generated readdir order); one dry run under "
        "strace lists the runtime's system calls, then ONE RUN PER SINGLE FAULT: the k-th mkdir/openat/write/close/"
        "unlink/rmdir/getdents64/read of a thread fails with ENOSPC, EIO or EACCES (strace error injection), for "
        "every k; plus runs under a file size limit (RLIMIT_FSIZE with SIGXFSZ ignored: writes fail with EFBIG after a partial write) at limits around the program's own file sizes; plus runs where every write() is a real short write (shim).  Oracle on the observable "
        "outcome: (A) the program terminated abnormally or with a non-zero status and printed a diagnostic, or "
        "(B) it exited 0 and every thread has a complete copy (stream.obs equal to the expected flushed events and "
        "stream.json with finished=1 in the same directory) in the final directory - or, only if a diagnostic was printed, in the temporary one - and "
        "ovniemu -l accepts the directory that holds them; and in every outcome (C) the events of each stream "
        "whose flushes all succeeded still exist in at least one file.  An ignored error with intact data is not "
        "a violation.  Non-trivial = the fault hit a data or metadata write or any call of the relocation path; "
        "distinct = (program, syscall, k, errno).")
ASSUMPTIONS = ["single faults per thread: strace applies 'when=k' to every thread's k-th call of that name",
               "expected events come from a fault-free run of the same script (clocks come from ovni_clock_now() and are masked; payloads carry sequence numbers)"]

ERRNOS = ["ENOSPC", "EIO", "EACCES"]


def setup(ctx):
    return c09.setup(ctx)


@st.composite
def programs(draw):
    c = draw(c09.programs())
    c["reinit"] = False     # C09's re-init programs are refused by the library: not a fault-injection subject
    # keep programs small: fault runs are threefold
    c["threads"] = [t[:500] + ([["flush"]] if len(t) > 500 else []) for t in c["threads"][:2]]
    for t in c["threads"]:
        if not any(o[0] == "ev" and o[1] == "OHe" for o in t):
            t.insert(len(t) - 1, ["ev", "OHe", 12])
    return c


def norm_all(data):
    evs = obs.decode_stream(data)
    return [(e.mcv, bytes(e.payload)) for e in evs]      # clocks come from ovni_clock_now(): masked


def complete_copy(dirpath, want):
    """stream.obs equal to the expected events and stream.json finished beside it"""
    try:
        data = open(os.path.join(dirpath, "stream.obs"), "rb").read()
        if norm_all(data) != want:
            return False
        return json.load(open(os.path.join(dirpath, "stream.json"))).get("ovni", {}).get("finished") == 1
    except Exception:
        return False


def data_survives(dirs, want):
    for d in dirs:
        try:
            if norm_all(open(os.path.join(d, "stream.obs"), "rb").read()) == want:
                return True
        except Exception:
            pass
    return False


def judge_outcome(ctx, case, r, full, what):
    nth = len(case["threads"])
    b = ctx.b("plain")
    primary_root = r.tmpdir if case["tmpdir"] else r.tracedir
    F = inject.flushed_bytes(r.calls, primary_root)
    roots = [r.tracedir] + ([r.tmpdir] if case["tmpdir"] else [])
    where = {}
    for t in range(nth):
        if ("norm", t) not in full:
            full[("norm", t)] = norm_all(full[t])      # decoded once per program, not once per fault run
        want = full[("norm", t)]
        dirs = [c09.thread_dir(x, t) for x in roots]
        ppath = os.path.normpath(os.path.join(c09.thread_dir(primary_root, t), "stream.obs"))
        all_flushed = F.get(ppath, 0) == len(full[t])
        if all_flushed and not data_survives(dirs, want):
            raise Violation("(C) all flushes of thread %d succeeded but no file holds its events any more: %s" % (70 + t, what))
        where[t] = [x for x in roots if complete_copy(c09.thread_dir(x, t), want)]
    if r.rc == 0:
        for t in range(nth):
            if not where[t]:
                raise Violation("(B) program exited 0 but thread %d has no complete copy (events + finished metadata) anywhere: %s"
                                % (70 + t, what))
        if any(r.tracedir not in where[t] for t in range(nth)) and not r.err.strip():
            # the trace the user asked for (OVNI_TRACEDIR) is incomplete, the program
            # returned normally and said nothing: a silent fault, even if the
            # temporary directory still holds the data
            raise Violation("(B) program exited 0 without any diagnostic but the final trace directory lacks a complete "
                            "copy of some thread (data only in OVNI_TMPDIR): %s" % what)
        common = [x for x in roots if all(x in where[t] for t in range(nth))]
        if common:
            root = common[0]
            os.makedirs(os.path.join(root, "cfg"), exist_ok=True)
            er = tools.emu(b, root, ("-l",))
            if not er.ok:
                raise Violation("(B) program exited 0 with complete copies in %s but ovniemu -l rejects it: %s; %s"
                                % (os.path.basename(root), er.brief(), what))
        return "returned-ok"
    if r.rc == "timeout":
        return "inconclusive"
    if not r.err.strip():
        raise Violation("(A) program failed (status %s) without any diagnostic: %s" % (r.rc, what))
    return "aborted-with-diagnostic"


def run(case, ctx):
    lines = c09.to_script(case)
    script = "\n".join(lines) + "\n"
    nth = len(case["threads"])
    env = rt.shim_env(ctx.shared["shim"], readdir=case["readdir"])
    base = ctx.newdir()
    nfaults = 0
    nt = 0
    outcomes = {}
    try:
        dry = inject.run(ctx.shared["drv"], script, os.path.join(base, "dry"), tmpdir_mode=case["tmpdir"], env=env, nthreads=nth)
        if dry.rc != 0:
            raise Violation("dry run failed: rc=%s %s" % (dry.rc, dry.err[-300:]))
        full = {t: open(os.path.join(c09.thread_dir(dry.tracedir, t), "stream.obs"), "rb").read() for t in range(nth)}
        cnt = inject.counts(dry.calls)
        pick = case.get("errno_rot", 0)
        for s in inject.SYSCALLS:
            for k in inject.select_k(cnt.get(s, 0)):
                for ei, en in enumerate(ERRNOS):
                    if ctx.tier == "quick" and (k + ei + pick) % 3 != 0:
                        continue        # quick: one errno per point, rotating
                    wd = os.path.join(base, "k")
                    shutil.rmtree(wd, ignore_errors=True)
                    r = inject.run(ctx.shared["drv"], script, wd, tmpdir_mode=case["tmpdir"], env=env, nthreads=nth,
                                   inject="%s:error=%s:when=%d" % (s, en, k))
                    nfaults += 1
                    what = "%s #%d fails with %s (%s mode, readdir order %d)" % (s, k, en, "TMPDIR" if case["tmpdir"] else "direct", case["readdir"])
                    oc = judge_outcome(ctx, case, r, full, what)
                    outcomes[oc] = outcomes.get(oc, 0) + 1
                    if s in ("write", "read", "openat", "unlink", "getdents64"):
                        nt += 1
        # a file size limit ("quota reached"): every write that would make a file longer than L bytes
        # fails with EFBIG after a partial write up to L; one run per limit around the sizes of this
        # program's own files
        biggest = max(len(v) for k_, v in full.items() if isinstance(k_, int))
        limits = sorted({1, 8, 9, 64, 700, biggest // 2, biggest - 1} - {0, -1})
        limits = [L for L in limits if L < biggest]
        if ctx.tier == "quick":
            limits = [L for i, L in enumerate(limits) if (i + pick) % 2 == 0]
        frees = [i for i, l in enumerate(lines) if l.endswith(" free")]
        for li, L in enumerate(limits):
            wd = os.path.join(base, "k")
            shutil.rmtree(wd, ignore_errors=True)
            envL = dict(env)
            scriptL = script
            if li % 2 == 0 or not frees:
                envL["RTDRV_FSIZE"] = str(L)
                when = "from the start"
            else:
                # the limit only starts right before a thread is freed (the streams are on disk by then;
                # in TMPDIR mode the copy to the final directory runs into it)
                at = frees[(li // 2 + pick) % len(frees)]
                who = lines[at].split()[0]
                scriptL = "\n".join(lines[:at] + ["%s fsize %d" % (who, L)] + lines[at:]) + "\n"
                when = "set right before '%s'" % lines[at]
            r = inject.run(ctx.shared["drv"], scriptL, wd, tmpdir_mode=case["tmpdir"], env=envL, nthreads=nth)
            nfaults += 1
            what = "file size limit of %d bytes %s (%s mode, readdir order %d)" % (L, when, "TMPDIR" if case["tmpdir"] else "direct", case["readdir"])
            oc = judge_outcome(ctx, case, r, full, what)
            outcomes[oc] = outcomes.get(oc, 0) + 1
            nt += 1
        # short writes
        env2 = rt.shim_env(ctx.shared["shim"], short=("half" if case["readdir"] else "one"), readdir=case["readdir"])
        wd = os.path.join(base, "k")
        shutil.rmtree(wd, ignore_errors=True)
        r = inject.run(ctx.shared["drv"], script, wd, tmpdir_mode=case["tmpdir"], env=env2, nthreads=nth)
        oc = judge_outcome(ctx, case, r, full, "every write() is short")
        if oc != "returned-ok":
            raise Violation("short writes are not errors, but the program failed: %s" % r.err[-300:])
        nfaults += 1
        ctx.stats.extra["fault_runs"] = ctx.stats.extra.get("fault_runs", 0) + nfaults
        for k_, v in outcomes.items():
            ctx.stats.cls("outcome:" + k_, v)
        return {"nt": nt > 0, "cls": ["mode:" + ("tmpdir" if case["tmpdir"] else "direct"), "threads:%d" % nth],
                "sample": {"threads": [len(x) for x in case["threads"]], "tmpdir": case["tmpdir"], "fault_runs": nfaults}}
    finally:
        ctx.rmdir(base)


def parts(tier):
    return [Part("single-faults", run, strategy=lambda ctx: programs(), budget={"quick": 400, "thorough": 4000},
                 cap_s={"quick": 500, "thorough": 3400})]
