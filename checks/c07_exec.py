"""C07 (a): bounded-exhaustive, model-based exploration of task.c / body.c in process."""
import itertools, subprocess
from vlib.runner import Part, Violation

PAR, RES, PAU, REL = 1, 2, 4, 8
OPS = "xpre"
BST = {"running": 2, "paused": 3, "dead": 4, "created": 1}


def setup(ctx):
    exe = ctx.b("plain").compile("exec_task.c", "exec_task", libs="emu")
    return {"exec_task": exe}


class M:
    """Reference model of the task module, from the C07 statement."""

    def __init__(self, flags):
        self.flags = list(flags)              # per task (ids 1..n)
        self.body = {}                        # (task, body) -> [state, stack]
        self.stacks = [[], []]                # bottom..top of (task, body)

    def clone(self):
        m = M(self.flags)
        m.body = {k: list(v) for k, v in self.body.items()}
        m.stacks = [list(s) for s in self.stacks]
        return m

    def key(self):
        return (tuple(sorted((k, tuple(v)) for k, v in self.body.items())), tuple(tuple(s) for s in self.stacks))

    def top(self, s):
        return self.stacks[s][-1] if self.stacks[s] else None

    def op(self, a, s, t, b):
        """Returns True (accepted, state updated) or False (rejected)."""
        fl = self.flags[t - 1]
        k = (t, b)
        cur = self.body.get(k)
        if a == "x":
            if cur is None:
                if not (fl & PAR) and any(kk[0] == t for kk in self.body):
                    return False
                st = "created"
            else:
                st = cur[0]
                if st == "dead":
                    if not (fl & RES):
                        return False
                    st = "created"
            if st != "created":
                return False
            tp = self.top(s)
            if tp is not None and self.body[tp][0] == "running" and not (self.flags[tp[0] - 1] & REL):
                return False
            self.body[k] = ["running", s]
            self.stacks[s].append(k)
            return True
        if cur is None:
            return False
        if a == "p":
            if not (fl & PAU) or cur[0] != "running" or cur[1] != s or self.top(s) != k:
                return False
            cur[0] = "paused"
            return True
        if a == "r":
            if cur[0] != "paused" or cur[1] != s or self.top(s) != k:
                return False
            cur[0] = "running"
            return True
        if a == "e":
            if cur[0] != "running" or cur[1] != s or self.top(s) != k:
                return False
            cur[0] = "dead"
            cur[1] = None
            self.stacks[s].pop()
            return True
        raise ValueError(a)

    def tops(self):
        out = []
        for s in (0, 1):
            tp = self.top(s)
            out.append("-" if tp is None else "%d:%d:%d" % (tp[0], tp[1], BST[self.body[tp][0]]))
        return out


def all_ops(ntasks):
    return [(a, s, t, b) for a in OPS for s in (0, 1) for t in range(1, ntasks + 1) for b in (1, 2)]


def enum_states(ctx):
    """One case per (flag combination, reachable model state): the path that
    reaches it.  run() then tries every operation from that state."""
    quick = ctx.tier == "quick"
    combos = []
    for f1 in range(16):
        for f2 in range(f1, 16):
            combos.append((f1, f2))
    if quick:
        tri = [(PAU | RES, PAR, PAU | REL), (PAR, PAR | PAU, 0), (PAU | RES, PAU | RES, PAU | RES), (15, 0, PAU)]
        depth2, depth3 = 6, 5
    else:
        tri = [c for c in itertools.combinations_with_replacement(range(16), 3)]
        depth2, depth3 = 8, 6
    for ci, flags in enumerate(combos + list(tri)):
        if ci % ctx.nworkers != ctx.widx:
            continue              # the BFS itself is sharded by flag combination
        depth = depth2 if len(flags) == 2 else depth3
        ops = all_ops(len(flags))
        seen = {}
        m0 = M(flags)
        frontier = [(m0, [])]
        seen[m0.key()] = True
        d = 0
        while frontier:
            nxt = []
            for (m, path) in frontier:
                yield {"flags": list(flags), "path": ["%s%d%d%d" % o for o in path]}
                if d >= depth:
                    continue
                for o in ops:
                    m2 = m.clone()
                    if m2.op(*o):
                        k = m2.key()
                        if k not in seen:
                            seen[k] = True
                            nxt.append((m2, path + [o]))
            frontier = nxt
            d += 1


def run(case, ctx):
    flags = case["flags"]
    path = [(p[0], int(p[1]), int(p[2]), int(p[3])) for p in case["path"]]
    ops = all_ops(len(flags))
    lines = []
    expect = []
    for o in ops:
        lines.append("case")
        for i, f in enumerate(flags):
            lines.append("t %d %d" % (i + 1, f))
        m = M(flags)
        for po in path:
            lines.append("%s %d %d %d" % po)
            assert m.op(*po)
        lines.append("%s %d %d %d" % o)
        ok = m.op(*o)
        expect.append((o, ok, m.tops()))
        lines.append("end")
    r = subprocess.run([ctx.shared["exec_task"]], input="\n".join(lines) + "\n", capture_output=True, text=True)
    if r.returncode != 0:
        raise Violation("exec_task died rc=%d on flags=%s path=%s" % (r.returncode, flags, case["path"]))
    out = r.stdout.split("\n")
    i = 0
    ntr = 0
    for (o, ok, tops) in expect:
        assert out[i] == "case", out[i:i + 3]
        i += 1
        for _ in flags:
            if out[i] != "0":
                raise Violation("task_create failed for flags %s" % flags)
            i += 1
        for po in path:
            f = out[i].split()
            if f[0] != "0":
                raise Violation("legal path step %s rejected by task module (flags %s, path %s)" % (po, flags, case["path"]))
            i += 1
        f = out[i].split()
        i += 1
        got_ok = (f[0] == "0")
        if got_ok != ok:
            raise Violation("task module %s %s%s after path %s with task flags %s; model says %s"
                            % ("accepts" if got_ok else "rejects", o[0], o[1:], case["path"], flags,
                               "accept" if ok else "reject"))
        if ok and f[1:3] != tops:
            raise Violation("stack tops after %s%s: module %s, model %s (flags %s path %s)"
                            % (o[0], o[1:], f[1:3], tops, flags, case["path"]))
        assert out[i] == "end"
        i += 1
        ntr += 1
    ctx.stats.extra["transitions"] = ctx.stats.extra.get("transitions", 0) + ntr
    ctx.stats.extra["states"] = ctx.stats.extra.get("states", 0) + 1
    return {"nt": len(path) >= 2, "cls": ["task-module-depth:%d" % len(path)]}


def part(tier):
    return Part("task-module-bfs", run, enum=enum_states, cap_s={"quick": 300, "thorough": 3000}, presharded=True)
