"""C08 — subsystem nesting and value mapping in the eight models (DESIGN section 4, C08)."""
from hypothesis import strategies as st
from vlib.runner import Part, Violation
from vlib import gen, refmodel as R, trace as T
from checks.common import hist_run, mcvs

ID = "C08"
VARIANTS = ["plain"]
TARGETS = ["ovniemu"]
LEVEL = "exploration"
RULE = ("per model, sequences over its documented enter/leave pairs (golden/regions.json, 150 pairs): "
        "(a) exhaustive: every pair alone and every ordered couple of distinct pairs of one model nested at "
        "depth 2, in and out; (b) nesting depths 1..513 alternating two pairs (512 accepted, 513 refused); "
        "(c) random histories over 1-2 looms x 1-2 processes (and a second profile with the breakdown option -b) with thread state changes, single mismatched leaves, leaves on an empty stack, "
        "region events of threads not in the state the model requires, traces ending with open regions with "
        "and without -l.  Oracle: reference verdict vs exit status; for accepted traces the subsystem/function "
        "row shows, after every event time, the value whose PCF label is the documented label of the innermost "
        "open region (0 when none).  Non-trivial = depth >= 2 with >= 2 distinct pairs; distinct = (model, sequence).")
ASSUMPTIONS = ["immediate re-entry of the innermost open region is never generated (models differ; unclaimed)",
               "golden/regions.json labels were produced at the pinned commit and reviewed against events.md",
               "kernel and flush regions have no lint rule and none is asserted"]

TYPES = {7, 13, 20, 25, 30, 37, 39, 45, 50, 4, 2, 6}


def one_thread(models, evs):
    return {"streams": [{"loom": "n.0", "pid": 1, "tid": 1, "app": 1, "cpus": [[0, 0]],
                         "require": gen.require_for(models), "events": evs}]}


def seq_case(model, seq, lint=True):
    """seq: list of mcv strings executed by one running thread."""
    evs = [T.OHx(100, 0)]
    clk = 100
    for m in seq:
        clk += 3
        evs.append(T.plain(m, clk))
    evs.append(T.plain("OHe", clk + 3))
    tr = one_thread([model] if model != "O" else [], evs)
    tr["_flags"] = ["-l"] if lint else []
    tr["_mode"] = "systematic"
    tr["_depth"] = max_depth(seq)
    return tr


def max_depth(seq):
    regs = R.regions()
    d = mx = 0
    for m in seq:
        r = regs.get(m)
        if not r:
            continue
        d += 1 if r[0] == "push" else -1
        mx = max(mx, d)
    return mx


def enum_pairs(ctx):
    prs = R.region_pairs()
    for r in prs:
        yield seq_case(r["model"], [r["enter"], r["leave"]])
        yield seq_case(r["model"], [r["enter"]], lint=True)     # left open: lint must refuse (where a rule exists)
        yield seq_case(r["model"], [r["enter"]], lint=False)
        yield seq_case(r["model"], [r["leave"]])                 # leave on empty stack
    by = {}
    for r in prs:
        by.setdefault((r["model"], r["type"]), []).append(r)
    for (m, _t), rs in by.items():
        for a in rs:
            for b in rs:
                if a is b:
                    continue
                yield seq_case(m, [a["enter"], b["enter"], b["leave"], a["leave"]])
    # single mismatch at depth 2 for every couple of a smaller sample: leave outer first
    for (m, _t), rs in by.items():
        for i, a in enumerate(rs):
            b = rs[(i + 1) % len(rs)]
            if a is b:
                continue
            yield seq_case(m, [a["enter"], b["enter"], a["leave"], b["leave"]])


def enum_depth(ctx):
    by = {}
    for r in R.region_pairs():
        by.setdefault((r["model"], r["type"]), []).append(r)
    depths = [3, 17, 64, 255, 511, 512, 513, 514] if ctx.tier == "quick" else list(range(1, 40)) + [64, 100, 255, 400, 500, 510, 511, 512, 513, 514, 600]
    for (m, _t), rs in sorted(by.items()):
        if len(rs) < 2:
            continue
        a, b = rs[0], rs[-1]
        for d in depths:
            seq = [(a if i % 2 == 0 else b)["enter"] for i in range(d)]
            seq += [(a if i % 2 == 0 else b)["leave"] for i in reversed(range(d))]
            yield seq_case(m, seq)


def models_draw(draw):
    m = draw(st.sampled_from(["V", "6", "D", "M", "T", "P", "K", "O"]))
    ms = [] if m == "O" else [m]
    if draw(st.integers(0, 3)) == 0:
        extra = draw(st.sampled_from(["K", "M", "V", "T"]))
        if extra not in ms:
            ms.append(extra)
    return ms


PROF = gen.Profile(kinds=["region"] * 6 + ["state", "flush", "kernel"], models=models_draw,
                   max_looms=2, max_procs=2, max_threads=2, max_cpus=2, steps=(6, 70),
                   modes=("legal", "legal", "illegal", "illegal", "noend"), lint=None,
                   wild_kinds=["region", "region", "gated", "gated", "unknown"])


# the same with the breakdown option on (-b, alone or together with -l): verdicts must not change
PROF_B = gen.Profile(kinds=["region"] * 6 + ["state", "task"],
                     models=lambda draw: draw(st.sampled_from([["V"], ["6"], ["V", "6"], ["6", "M"], ["V", "T"]])),
                     max_looms=1, max_procs=1, max_threads=2, max_cpus=2, steps=(6, 50),
                     modes=("legal", "illegal", "noend", "noend"), lint=None, breakdown=True,
                     wild_kinds=["region", "region", "gated", "unknown"], extra_flags=("-b",))


def nt(case, res):
    d = case.get("_depth")
    if d is None:
        d = 0
        for s in case["streams"]:
            d = max(d, max_depth([e[0] for e in s["events"]]))
    kinds = {e for e in mcvs(case) if e in R.regions()}
    return d >= 2 and len(kinds) >= 3


def classes(case, res):
    out = []
    ms = {e[0] for e in mcvs(case) if e in R.regions()}
    out += ["model:" + m for m in sorted(ms)]
    if "-l" in case.get("_flags", []):
        out.append("lint")
    if res["verdict"] == "reject" and res["info"]:
        out.append("why:" + str(res["info"].get("why"))[:40])
    return out


def run(case, ctx):
    return hist_run(case, ctx, only_types=TYPES, nt=nt, extra_cls=classes)


def parts(tier):
    return [
        Part("pairs-depth-1-2", run, enum=enum_pairs, cap_s={"quick": 300, "thorough": 1200}),
        Part("nesting-depth", run, enum=enum_depth),
        Part("histories", run, strategy=lambda ctx: gen.history(PROF),
             budget={"quick": 6000, "thorough": 90000}),
        Part("histories-with-breakdown-option", run, strategy=lambda ctx: gen.history(PROF_B),
             budget={"quick": 2000, "thorough": 30000}),
    ]
