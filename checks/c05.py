"""C05 — CPU occupancy and CPU rows (DESIGN section 4, C05)."""
from hypothesis import strategies as st
from vlib.runner import Part, Violation
from vlib import gen, refmodel as R, pv, compare
from checks.common import hist_run, mcvs
import os

ID = "C05"
VARIANTS = ["plain"]
TARGETS = ["ovniemu"]
LEVEL = "exploration"
RULE = ("model-guided random histories of 2-6 threads in 1-2 processes on 1-2 looms with 1-3 physical CPUs "
        "per loom plus the virtual CPU: thread state events, local (OAs) and remote (OAr) affinity changes, "
        "walks biased towards contention; oracle = reference verdict (reject iff a physical CPU would hold "
        "two RUNNING threads or a thread-FSM error) vs ovniemu exit status, cpu.prv types 3/2/1 and "
        "thread.prv 4/2/6 after every event time, plus cpu rows recomputed from thread.prv alone. "
        "A second part repeats this with the kernel model enabled and KCO/KCI events interleaved (a thread that is out of the CPU still occupies it).  Non-trivial = contains a migration of a non-running thread or a vCPU oversubscription; "
        "distinct = the history.")
ASSUMPTIONS = ["remote affinity onto the CPU the target already occupies is excluded (section 5)",
               "OAs by a non-active thread is excluded", "no cross-stream clock ties"]

PROF = gen.Profile(kinds=["state", "state", "affinity", "affinity", "noeffect"],
                   models=[], max_looms=2, max_procs=2, max_threads=3, max_cpus=3, min_threads=2,
                   steps=(8, 60), lint=True, wild_kinds=["state", "affinity", "contend", "contend", "contend"],
                   modes=("legal", "illegal", "illegal", "noend"))


# the same with the kernel model on: threads marked "out of the CPU" (KCO..KCI) still count as running
PROF_K = gen.Profile(kinds=["state", "state", "affinity", "affinity", "kernel", "kernel"],
                     models=["K"], max_looms=2, max_procs=2, max_threads=3, max_cpus=2, min_threads=2,
                     steps=(8, 60), lint=True, wild_kinds=["state", "affinity", "contend", "contend", "contend"],
                     modes=("legal", "legal", "illegal", "illegal", "noend"))


def cross_check(model, d, r):
    """cpu.prv types 3/2/1 recomputed from thread.prv types 4 and 6 alone."""
    tprv = pv.Prv(os.path.join(d, "thread.prv"))
    cprv = pv.Prv(os.path.join(d, "cpu.prv"))
    ts, cs = tprv.steps(), cprv.steps()
    times = sorted({t for (_r, t, _ty, _v) in tprv.records} | {t for (_r, t, _ty, _v) in cprv.records})
    nth = tprv.nrows
    tids = {th.row: (th.tid, th.proc.pid) for th in model.threads}
    for t in times:
        per_cpu = {}
        for row in range(1, nth + 1):
            state = pv.value_at(ts.get((row, 4), ()), t)
            cpu = pv.value_at(ts.get((row, 6), ()), t)
            if cpu and state == 1:
                per_cpu.setdefault(cpu, []).append(row)
        for crow in range(1, cprv.nrows + 1):
            run = per_cpu.get(crow, [])
            exp3 = len(run)
            exp2, exp1 = (tids[run[0]] if len(run) == 1 else (0, 0))
            got = tuple(pv.value_at(cs.get((crow, ty), ()), t) for ty in (3, 2, 1))
            if got != (exp3, exp2, exp1):
                raise Violation("cpu row %d at t=%d shows (nrun,tid,pid)=%s but thread.prv implies %s"
                                % (crow, t, got, (exp3, exp2, exp1)))


def nt(case, res):
    m = res.get("model")
    ev = mcvs(case)
    return ("OAr" in ev or "OAs" in ev) and res["verdict"] == "accept" or any(
        c[0] > 1 for (_t, _th, cps) in (m.snap if m else []) for c in cps.values())


def classes(case, res):
    ev = mcvs(case)
    out = []
    if "OAr" in ev:
        out.append("has-remote-affinity")
    if "OAs" in ev:
        out.append("has-local-affinity")
    m = res.get("model")
    if m and any(c[0] > 1 for (_t, _th, cps) in m.snap for c in cps.values()):
        out.append("vcpu-oversubscribed")
    if res["verdict"] == "reject" and res["info"] and "oversubscribed" in str(res["info"].get("why")):
        out.append("reject:oversubscription")
    return out


def run(case, ctx):
    return hist_run(case, ctx, only_types={1, 2, 3, 4, 6}, nt=nt, extra_cls=classes, extra_check=cross_check)


def parts(tier):
    return [Part("histories", run, strategy=lambda ctx: gen.history(PROF),
                 budget={"quick": 8000, "thorough": 120000}),
            Part("histories-kernel-model", run, strategy=lambda ctx: gen.history(PROF_K),
                 budget={"quick": 3000, "thorough": 40000})]
