"""C03 — one time-ordered, loss-free replay (DESIGN section 4, C03)."""
import itertools, os, subprocess, json
from hypothesis import strategies as st
from vlib.runner import Part, Violation
from vlib import gen, refmodel as R, trace as T, tools, pv, judge

ID = "C03"
VARIANTS = ["plain"]
TARGETS = ["ovniemu", "ovnidump", "ovnitop", "emu"]
LEVEL = "exploration"
RULE = ("(a) heap.h in process with the player's comparator: every sequence of <= L insert/pop operations over "
        "keys {0,1,2} (exhaustive) and random sequences over <= 64 nodes with tied and extreme keys incl. the "
        "player's pop/re-insert pattern; oracle: multiset model (pop returns a minimal key, NULL iff empty, size) "
        "and after every operation a tree walk (parent links, heap order, complete shape, node count).  "
        "(b) ovnidump/ovnitop on 0-8 streams of 0-30 arbitrary events with heavy cross-stream clock ties, empty "
        "streams, time scales from 1 ns to 70 s between events (clock differences beyond 32 bits), nested stream directories, two creation orders (in a third to a half of the cases the second layout keeps one top-level directory elsewhere and reaches it through a symbolic link; the emulator part does the same with the first loom directory in a quarter of its cases): output is a valid merge (non-decreasing clock, "
        "every event once, per-stream order kept), identical for both creation orders; ovnitop counts = multiset. "
        "(b') the text-mode dump lists exactly the events of the hex-mode dump, also well-formed events it cannot render (labels of 1000-5000 characters).  (c) ovniemu with 1-3 looms and clock-offsets.txt (negative, zero, large; hosts whose own clocks are hours apart; corrected origins that are negative or exactly 0; clocks beyond 2^53), tracer-dye marks: lines of "
        "thread.prv in file order are a valid merge in corrected time, each time = corrected - corrected(first), "
        "header duration = last - first, byte-identical output for permuted directory creation order.  "
        "Non-trivial = >= 2 streams with a cross-stream tie, or an offset table that changes the merge order.")
ASSUMPTIONS = ["the replay order of equal corrected clocks in different streams is unspecified: any valid merge is accepted",
               "dump tools load no offset table (corrected time = stream clock)",
               "first-event clocks of different streams are kept within one hour after correction (documented clock gate)"]


def setup(ctx):
    return {"exec_heap": ctx.b("plain").compile("exec_heap.c", "exec_heap", libs="emu")}


# ---- (a) heap -----------------------------------------------------------------

def run_heap(case, ctx):
    ops = case["ops"]
    lines = ["case"]
    for o in ops:
        lines.append("p" if o[0] == "p" else "i %d %d" % (o[1], o[2]))
    lines.append("end")
    r = subprocess.run([ctx.shared["exec_heap"]], input="\n".join(lines) + "\n", capture_output=True, text=True)
    if r.returncode != 0:
        raise Violation("exec_heap died rc=%d on %s" % (r.returncode, ops))
    out = [l for l in r.stdout.split("\n") if l and l not in ("case", "end")]
    if len(out) != len(ops):
        raise Violation("exec_heap output truncated: %s" % ops)
    inside = {}
    ties = False
    for o, line in zip(ops, out):
        popped, size, ok, cnt = [int(x) for x in line.split()]
        if o[0] == "i":
            if o[2] in inside.values():
                ties = True
            inside[o[1]] = o[2]
            if popped != -1:
                raise Violation("insert returned a node")
        else:
            if not inside:
                if popped != -1:
                    raise Violation("pop on empty heap returned node %d (%s)" % (popped, ops))
            else:
                if popped not in inside:
                    raise Violation("pop returned node %d which is not in the heap (%s)" % (popped, ops))
                mn = min(inside.values())
                if inside[popped] != mn:
                    raise Violation("pop returned key %d but the minimum is %d (%s)" % (inside[popped], mn, ops))
                del inside[popped]
        if size != len(inside) or cnt != len(inside):
            raise Violation("heap size %d / reachable %d != %d elements (%s)" % (size, cnt, len(inside), ops))
        if not ok:
            raise Violation("heap structure invariant broken after %s (%s)" % (o, ops))
    return {"nt": ties and len(ops) >= 3, "cls": ["heap"]}


def enum_heap(ctx):
    L_ = 7 if ctx.tier == "quick" else 9
    # ops: insert next node with key k in {0,1,2}, or pop
    alphabet = [("i", 0), ("i", 1), ("i", 2), ("p",)]
    for n in range(1, L_ + 1):
        for seq in itertools.product(alphabet, repeat=n):
            node = 0
            ops = []
            for s in seq:
                if s[0] == "i":
                    ops.append(["i", node, s[1]])
                    node += 1
                else:
                    ops.append(["p"])
            yield {"ops": ops}


@st.composite
def heap_random(draw):
    n = draw(st.integers(1, 120))
    keys = st.one_of(st.integers(0, 4), st.integers(-3, 3), st.sampled_from([2 ** 63 - 1, -2 ** 63, 2 ** 62]), st.integers(0, 10 ** 6))
    ops = []
    free = list(range(64))
    inside = []
    for _ in range(n):
        k = draw(st.integers(0, 3))
        if k == 0 or not free:
            ops.append(["p"])
            # the model decides later which node leaves; free list is conservative
        else:
            node = free.pop(0)
            ops.append(["i", node, draw(keys)])
    return {"ops": ops}


# ---- (b) dump tools ---------------------------------------------------------------

MCVS = ["OHx", "OB.", "VTx", "ZZZ", "6W[", "abc", "OM=", "KCO"]


@st.composite
def dump_cases(draw):
    ns = draw(st.integers(0, 8))
    layout = draw(st.booleans())
    streams = []
    base = draw(st.sampled_from([0, 1000, 2 ** 40]))
    # time scale: with seconds between events the clock differences exceed 32 bits
    scale = draw(st.sampled_from([1, 1, 10 ** 9, 2 ** 31 + 1, 7 * 10 ** 10]))
    for i in range(ns):
        n = draw(st.integers(0, 30))
        clocks = sorted(c * scale for c in draw(st.lists(st.integers(0, 12), min_size=n, max_size=n)))
        evs = []
        for c in clocks:
            mcv = draw(st.sampled_from(MCVS))
            k = draw(st.sampled_from([0, 0, 2, 4, 8, 16]))
            pl = bytes([draw(st.integers(0, 255))] * k).hex()
            r10 = draw(st.integers(0, 19))
            if r10 == 1:
                # a well-formed task type event whose label is longer than any line buffer
                evs.append(T.type_create("V", base + c, 1 + i, "L" * draw(st.sampled_from([5, 1000, 1023, 1500, 5000]))))
            elif r10 == 0:
                evs.append(T.jumbo(mcv, base + c, bytes([i]) * draw(st.integers(0, 40))))
            else:
                evs.append(T.ev(mcv, base + c, pl))
        depth = draw(st.integers(0, 2))
        path = "/".join(["d%d" % draw(st.integers(0, 2)) for _ in range(depth)] + ["s%02d" % i])
        if layout:
            # libovni's layout, the same pid/tid numbers under different looms
            path = "loom.node%d.0/proc.7/thread.%d" % (i % 3, 7 + i // 3)
        streams.append({"loom": "n.0", "pid": 1, "tid": 100 + i, "app": 1, "path": path, "events": evs,
                        "cpus": [[0, 0]] if i == 0 else None})
    order = list(draw(st.permutations(list(range(ns)))))
    # one case in three: in the second layout the top-level directory of one stream lives elsewhere
    # and the trace directory holds a symbolic link to it (looms collected from node-local storage)
    symlink = draw(st.integers(0, ns - 1)) if ns and draw(st.integers(0, 2)) == 0 else None
    return {"streams": streams, "mkorder": order, "symlink": symlink}


def parse_dump(out):
    rows = []
    for l in out.decode("latin-1").split("\n"):
        if not l.strip():
            continue
        f = l.split()
        # "%10d  MCV  relpath  :hex" ; MCV may contain odd characters but no blanks in our alphabet
        rows.append((int(f[0]), f[1], f[2], f[3] if len(f) > 3 else ""))
    return rows


def run_dump(case, ctx):
    b = ctx.b("plain")
    streams = case["streams"]
    outs = []
    extra_dirs = []
    for order in (list(range(len(streams))), case["mkorder"]):
        d = ctx.newdir()
        try:
            tr = {"streams": streams, "mkorder": order}
            T.write_trace(tr, d)
            if case.get("symlink") is not None and order is case["mkorder"]:
                comp = streams[case["symlink"]]["path"].split("/")[0]
                away = ctx.newdir()
                extra_dirs.append(away)
                os.rename(os.path.join(d, comp), os.path.join(away, comp))
                os.symlink(os.path.join(away, comp), os.path.join(d, comp))
            r = tools.dump(b, d, ("-x",))
            if len(streams) == 0:
                if r.kind not in ("ok", "rejected"):
                    raise Violation("ovnidump on empty trace: %s" % r.brief())
                return {"nt": False, "cls": ["dump:empty-trace"]}
            if not r.ok:
                raise Violation("ovnidump failed on sorted streams: %s" % r.brief())
            rows = parse_dump(r.out)
            # text mode: one line per event as well, whatever the tool can or cannot decode
            r2 = tools.dump(b, d, ())
            if not r2.ok:
                raise Violation("ovnidump (text mode) failed on sorted streams: %s" % r2.brief())
            trow = []
            for l in r2.out.decode("latin-1").split("\n"):
                f = l.split()
                if len(f) >= 3 and f[0].isdigit():
                    trow.append((int(f[0]), f[1], f[2]))
            if trow != [(a_, b_, c_) for (a_, b_, c_, _h) in rows]:
                raise Violation("ovnidump text mode lists %d events, hex mode %d (first difference at line %d)" % (
                    len(trow), len(rows), next((i_ for i_, (x, y) in enumerate(zip(trow, [(a_, b_, c_) for (a_, b_, c_, _h) in rows])) if x != y), min(len(trow), len(rows)))))
            rt = tools.top(b, d)
            if not rt.ok:
                raise Violation("ovnitop failed: %s" % rt.brief())
            outs.append((rows, rt.out))
        finally:
            ctx.rmdir(d)
            for x in extra_dirs:
                ctx.rmdir(x)
            del extra_dirs[:]
    rows = outs[0][0]
    # valid merge
    expected = {}
    total = 0
    for s in streams:
        expected[s["path"]] = [(e[1], e[0], "".join(":%02x" % x for x in (
            (len(bytes.fromhex(e[2])).to_bytes(4, "little") + bytes.fromhex(e[2])) if e[3] else bytes.fromhex(e[2]))))
            for e in s["events"]]
        total += len(s["events"])
    if len(rows) != total:
        raise Violation("ovnidump printed %d events, streams hold %d" % (len(rows), total))
    last = None
    per = {}
    for (clk, mcv, path, hx) in rows:
        if last is not None and clk < last:
            raise Violation("ovnidump order not time-sorted: %d after %d" % (clk, last))
        last = clk
        per.setdefault(path, []).append((clk, mcv, hx))
    for path, evs in expected.items():
        got = per.get(path, [])
        if got != evs:
            raise Violation("stream %s: dumped events differ from the stream content (order/loss/duplication): got %s want %s"
                            % (path, got[:5], evs[:5]))
    if outs[0][0] != outs[1][0]:
        raise Violation("ovnidump output depends on the directory creation order" + (" or on a top-level directory of the trace being a symbolic link" if case.get("symlink") is not None else ""))
    # ovnitop counts
    cnt = {}
    for s in streams:
        for e in s["events"]:
            cnt[e[0]] = cnt.get(e[0], 0) + 1
    got = {}
    for l in outs[0][1].decode("latin-1").split("\n"):
        f = l.split()
        if len(f) == 2 and len(f[0]) == 3 and f[1].isdigit():
            got[f[0]] = int(f[1])
    if got != cnt:
        raise Violation("ovnitop counts %s != multiset of events %s" % (got, cnt))
    clocks = [set(e[1] for e in s["events"]) for s in streams]
    tie = any(clocks[i] & clocks[j] for i in range(len(clocks)) for j in range(i + 1, len(clocks)))
    return {"nt": tie, "cls": ["dump:streams=%d" % len(streams)] + (["dump:symlinked-directory"] if case.get("symlink") is not None else [])}


# ---- (c) emulator with offsets --------------------------------------------------------

@st.composite
def emu_cases(draw):
    nlooms = draw(st.integers(1, 3))
    hosts = ["hostA", "hostB", "hostC"]
    share = draw(st.booleans())
    streams = []
    offsets = {}
    decided = set()
    tid = 10
    marks = {"0": {"title": "dye", "chan_type": "single"}}
    # "far": hosts whose own clocks are hours apart and only meet through the offset table
    far = draw(st.integers(0, 3)) == 0
    base = 10 ** 14 if far else 10 ** 6
    if draw(st.integers(0, 3)) == 0:
        base += 2 ** 53 + 1       # clocks of a host that has been up for months: beyond 53 bits
    # "neg": the corrected clocks are negative (hosts that booted a moment ago and whose offset to the
    # reference is a large negative number); their own clocks stay positive
    neg = (not far) and base < 2 ** 53 and draw(st.integers(0, 4)) == 0
    if neg:
        base = -50000
    # "zero": the earliest corrected clock of the trace is exactly 0
    zero = (not far) and (not neg) and base < 2 ** 53 and draw(st.integers(0, 5)) == 0
    if zero:
        base = 0
    HOUR = 3600 * 10 ** 9
    scale = draw(st.sampled_from([1, 1, 1, 2 ** 31 + 3, 5 * 10 ** 9]))   # seconds apart: differences beyond 32 bits
    samepid = draw(st.booleans())
    for li in range(nlooms):
        host = hosts[0] if (share and li == 1) else hosts[li]
        lname = "%s.%d" % (host, li)
        if neg and host not in decided:
            offsets[host] = draw(st.sampled_from([-10 ** 6, -2 * 10 ** 6, -10 ** 6 - 7]))
        elif host not in decided and draw(st.integers(0, 3)) != 0:
            offsets[host] = draw(st.sampled_from([0, -40, 40, -5000, 5000, 123456, -7] if not far else
                                                 [2 * HOUR, -2 * HOUR, 5 * HOUR + 17, -3 * HOUR - 1, HOUR + 1, 40]))
        decided.add(host)       # one decision per host, also when two looms share it
        nth = draw(st.integers(1, 3))
        if samepid:
            tid = 10        # the same pid/tid numbers appear in every loom (processes of different nodes)
        for ti in range(nth):
            tid += 1
            k = draw(st.integers(0, 8))
            start = draw(st.integers(0, 20))
            if zero and not streams:
                start = 0
            gaps = draw(st.lists(st.integers(0, 6), min_size=k + 1, max_size=k + 1))
            clk = base + start * scale - offsets.get(host, 0)   # so that corrected clocks collide across hosts
            evs = [T.OHx(clk, -1)]
            for i in range(k):
                clk += gaps[i] * scale
                evs.append(T.mark("=", clk, i + 1, 0))
            clk += gaps[k] * scale
            evs.append(T.plain("OHe", clk))
            s = {"loom": lname, "pid": 100 if samepid else 100 + li, "tid": tid, "app": 1, "events": evs,
                 "extra": {"ovni.mark": marks}}
            if ti == 0:
                s["cpus"] = [[0, 0]]
            streams.append(s)
    if draw(st.integers(0, 3)) == 0:
        # a stream of another part type without events (header only): ignored by the emulator
        streams.append({"loom": streams[0]["loom"], "pid": streams[0]["pid"], "tid": 999, "app": 1, "events": [],
                        "path": draw(st.sampled_from(["aux/empty", "loom.%s/aux" % streams[0]["loom"], "zzz"])),
                        "extra": {"ovni.part": "aux"}})
    order = list(draw(st.permutations(list(range(len(streams))))))
    # (without the table the far hosts would really be hours apart, which the emulator refuses by design)
    use_offsets = (offsets or None) if (far or neg or zero or draw(st.integers(0, 4)) != 0) else None
    return {"streams": streams, "offsets": use_offsets, "mkorder": order,
            # the second layout reaches the first loom directory through a symbolic link
            "symlink": draw(st.integers(0, 3)) == 0}


def run_emu(case, ctx):
    b = ctx.b("plain")
    try:
        model = R.Model(case)
    except R.Reject as r:
        return {"discard": True, "cls": ["emu:model-load-reject"]}
    outs = []
    for order in (list(range(len(case["streams"]))), case["mkorder"]):
        d = ctx.newdir()
        try:
            tr = dict(case)
            tr["mkorder"] = order
            flags = ["-l"]
            if case.get("offsets") and order is not case["mkorder"] and len(case["streams"]) % 2 == 0:
                # same table given with -c <file> instead of <tracedir>/clock-offsets.txt
                T.write_trace(tr, d)
                os.rename(os.path.join(d, "clock-offsets.txt"), os.path.join(d, "offsets-elsewhere.txt"))
                flags = ["-c", os.path.join(d, "offsets-elsewhere.txt"), "-l"]
            else:
                T.write_trace(tr, d)
            away = None
            comp = "loom.%s" % case["streams"][0]["loom"]
            if case.get("symlink") and order is case["mkorder"] and os.path.isdir(os.path.join(d, comp)):
                away = ctx.newdir()
                os.rename(os.path.join(d, comp), os.path.join(away, comp))
                os.symlink(os.path.join(away, comp), os.path.join(d, comp))
            try:
                r = tools.emu(b, d, flags)
            finally:
                if away is not None:
                    # the outputs stay in d; the streams are not needed any more
                    os.unlink(os.path.join(d, comp))
                    ctx.rmdir(away)
            if not r.ok:
                raise Violation("emulator rejected a sorted trace with offsets: %s" % r.brief())
            try:
                prv = pv.Prv(os.path.join(d, "thread.prv"))
            except pv.PvError as e:
                raise Violation("unparsable thread.prv: %s" % e)
            outs.append((prv, open(os.path.join(d, "thread.prv"), "rb").read(), open(os.path.join(d, "cpu.prv"), "rb").read()))
        finally:
            ctx.rmdir(d)
    prv = outs[0][0]
    if outs[0][1:] != outs[1][1:]:
        raise Violation("emulator output depends on the directory creation order" + (" or on the first loom directory being a symbolic link" if case.get("symlink") else ""))
    # expected corrected times
    evs = model.merged_events()
    first = min(e[0] for e in evs)
    lastt = max(e[0] for e in evs)
    if prv.duration != lastt - first:
        raise Violation("header duration %d != last - first corrected time %d" % (prv.duration, lastt - first))
    rows = {t.sidx: t.row for t in model.threads}
    exp = {}
    for (ct, _p, _k, sidx, e) in evs:
        if e[0] == "OM=":
            exp.setdefault(rows[sidx], []).append((ct - first, int.from_bytes(bytes.fromhex(e[2])[:8], "little")))
    got = {}
    last = -1
    for (row, t, typ, val) in prv.records:
        if t < last:
            raise Violation("thread.prv time goes backwards (%d after %d)" % (t, last))
        last = t
        if typ == 100 and val != 0:
            got.setdefault(row, []).append((t, val))
    for row, l in exp.items():
        if got.get(row, []) != l:
            raise Violation("dye marks of row %d: emulator %s, expected (corrected - first) %s" % (row, got.get(row, [])[:6], l[:6]))
    for row in got:
        if row not in exp:
            raise Violation("dye marks on unexpected row %d" % row)
    # execute/end times (type 4 state changes) must also be corrected - first
    for (ct, _p, _k, sidx, e) in evs:
        if e[0] in ("OHx", "OHe"):
            want = 1 if e[0] == "OHx" else 3
            if not any(r == rows[sidx] and t == ct - first and typ == 4 and v == want for (r, t, typ, v) in prv.records):
                raise Violation("state change of row %d at corrected time %d missing" % (rows[sidx], ct - first))
    byc = {}
    for (ct, _p, _k, sidx, e) in evs:
        byc.setdefault(ct, set()).add(sidx)
    tie = any(len(v) > 1 for v in byc.values())
    reorder = bool(case.get("offsets")) and any(v != 0 for v in case["offsets"].values())
    return {"nt": tie or reorder, "cls": (["emu:symlinked-loom"] if case.get("symlink") else []) + ["emu:looms=%d" % len({s["loom"] for s in case["streams"]}),
                                            "emu:ties" if tie else "emu:noties",
                                            "emu:offsets" if case.get("offsets") else "emu:nooffsets"] +
                                           (["emu:negative-corrected-clocks"] if min(e[0] for e in evs) < 0 else []) + (["emu:hosts-hours-apart"] if case.get("offsets") and max(case["offsets"].values()) - min(list(case["offsets"].values()) + [0]) > 3600 * 10 ** 9 else [])}


def parts(tier):
    return [
        Part("heap-exhaustive", run_heap, enum=enum_heap, cap_s={"quick": 300, "thorough": 3000}),
        Part("heap-random", run_heap, strategy=lambda ctx: heap_random(), budget={"quick": 6000, "thorough": 100000}),
        Part("dump-tools", run_dump, strategy=lambda ctx: dump_cases(), budget={"quick": 3000, "thorough": 45000}),
        Part("emu-offsets", run_emu, strategy=lambda ctx: emu_cases(), budget={"quick": 3000, "thorough": 45000}),
    ]
