"""C14 — version gating in the runtime and in the emulator (DESIGN section 4, C14)."""
import itertools, os, re, subprocess
from hypothesis import strategies as st
from vlib.runner import Part, Violation
from vlib import gen, refmodel as R, trace as T, tools, evdoc

ID = "C14"
VARIANTS = ["plain"]
TARGETS = ["ovniemu", "emu", "ovni-static"]
LEVEL = "exploration"
RULE = ("(a) version.h in process: all (want, have) over {0,1,2,10}^3 x {0,1,2,10}^3 (4096 pairs): compatible iff "
        "same major and want.minor <= have.minor; well-formed strings (with -suffix) parse to their numbers, clearly "
        "malformed ones (missing component, non-numeric, hex digits, negative, empty, >= 64 chars) and major/minor numbers beyond the range of an int are refused.  (b) runtime: "
        "ovni_version_check_str and ovni_thread_require over versions around the library's own and malformed strings: "
        "returns iff compatible / well-formed, otherwise aborts with a diagnostic; sequences of checks in one process (each decided on its own); 2-16 threads checking compatible versions concurrently.  (c) emulator: for each of the 8 "
        "models traces requiring versions around the advertised one are accepted iff compatible, also when several streams require different versions of one model (every stream counts), requirement sets spread over 2-3 streams (a model is enabled when some stream requires it, wherever that stream sorts); for all 128 subsets "
        "of required non-ovni models one probe event per model is accepted iff its model is in the subset; with -a "
        "every probe is accepted.  Exhaustive over the stated domains; non-trivial = want != have.")
ASSUMPTIONS = ["ambiguous spellings (leading blanks, '+1', extra dotted components) are generated only in the random part and not asserted",
               "model versions advertised by ovniemu -h are the 'have' side"]

DOM = [0, 1, 2, 10]


def setup(ctx):
    b = ctx.b("plain")
    return {"exec_version": b.compile("exec_version.c", "exec_version", libs="emu"),
            "vercheck": b.compile("vercheck.c", "vercheck", libs="rt")}


def compat(w, h):
    return w[0] == h[0] and w[1] <= h[1]


# (a)
def enum_pairs(ctx):
    trip = list(itertools.product(DOM, repeat=3))
    chunk = []
    for w in trip:
        for h in trip:
            chunk.append([list(w), list(h)])
            if len(chunk) == 256:
                yield {"pairs": chunk}
                chunk = []
    if chunk:
        yield {"pairs": chunk}


def run_pairs(case, ctx):
    inp = "".join("c %d %d %d %d %d %d\n" % tuple(w + h) for w, h in case["pairs"])
    r = subprocess.run([ctx.shared["exec_version"]], input=inp, capture_output=True, text=True)
    out = r.stdout.split()
    if r.returncode != 0 or len(out) != len(case["pairs"]):
        raise Violation("exec_version failed")
    for (w, h), o in zip(case["pairs"], out):
        if (o == "1") != compat(w, h):
            raise Violation("version_is_compatible(want=%s, have=%s) = %s" % (w, h, o))
    ctx.stats.extra["version_pairs"] = ctx.stats.extra.get("version_pairs", 0) + len(case["pairs"])
    return {"nt": True, "cls": ["pairs"], "key": str(case["pairs"][0])}


GOOD_SUFFIX = ["", "-rc1", "-dirty", "-1", "-a.b"]
MALFORMED = ["", "1", "1.2", "a.b.c", "1.x.3", "x.2.3", "1.2.y", "-1.2.3", "1.-2.3", ".", "..", "1.",
             "v1.2.3", "1,2,3", "one.two.three", "1.2.3" + "0" * 70, "9" * 64, "1.2.z",
             "1.0x0.0", "0x1.0.0", "1.2.0x10", "1.0x10.0", "0x1.0x2.0x3"]


def beyond(have):
    """Well-formed looking strings that every reading refuses against `have`: a minor (or
    major) that is larger than the provider's however it is read -- decimal with a leading
    zero (12 > 11; an octal reading would give 10), or beyond the range of an int (a value
    that only wraps around to a compatible one)."""
    mj, mn = have[0], have[1]
    return ["%d.0%d.0" % (mj, mn + 1), "%d.00%d.7" % (mj, mn + 1),
            "%d.%d.0" % (mj, 2 ** 32), "%d.%d.0" % (mj, 2 ** 32 + mn), "%d.%d.0" % (2 ** 32 + mj, mn),
            "%d.%d.0" % (mj, 2 ** 31), "%d.%d.0" % (mj, 2 ** 64 + mn), "%d.%d.0" % (mj, 2 ** 63)]


@st.composite
def strings(draw):
    k = draw(st.integers(0, 4))
    if k <= 1:
        t = [draw(st.integers(0, 9999)) for _ in range(3)]
        s = "%d.%d.%d%s" % (t[0], t[1], t[2], draw(st.sampled_from(GOOD_SUFFIX)))
        return {"s": s, "expect": t}
    if k == 2:
        # components at and beyond the range of an int: the exact numbers or a refusal,
        # never a wrapped-around value
        big = [2 ** 31 - 1, 2 ** 31, 2 ** 32, 2 ** 32 + draw(st.integers(0, 20)), 2 ** 63, 2 ** 64 + draw(st.integers(0, 20))]
        t = [draw(st.one_of(st.integers(0, 9999), st.sampled_from(big))) for _ in range(3)]
        s = "%d.%d.%d%s" % (t[0], t[1], t[2], draw(st.sampled_from(GOOD_SUFFIX)))
        if max(t[0], t[1]) > 2 ** 31 - 1:
            return {"s": s, "expect": None}
        # the patch number takes no part in any decision: out of range it may be refused or kept
        return {"s": s, "expect": t if t[2] <= 2 ** 31 - 1 else [t[0], t[1], -1]}
    return {"s": draw(st.sampled_from(MALFORMED)), "expect": None}


def run_parse(case, ctx):
    r = subprocess.run([ctx.shared["exec_version"]], input="p %s\n" % case["s"], capture_output=True, text=True)
    f = r.stdout.split()
    if r.returncode != 0 or len(f) != 4:
        raise Violation("exec_version failed on %r" % case["s"])
    rc = int(f[0])
    if case["expect"] is None:
        if rc == 0:
            raise Violation("malformed or out-of-range version %r parsed as %s" % (case["s"], f[1:]))
    elif case["expect"][2] == -1:
        if rc == 0 and [int(x) for x in f[1:3]] != case["expect"][:2]:
            raise Violation("version %r parsed as rc=%d %s" % (case["s"], rc, f[1:]))
    else:
        if rc != 0 or [int(x) for x in f[1:]] != case["expect"]:
            raise Violation("version %r parsed as rc=%d %s" % (case["s"], rc, f[1:]))
    return {"nt": True, "cls": ["parse:" + ("good" if case["expect"] else "malformed")]}


# (b) runtime
def libversion(ctx):
    r = subprocess.run([ctx.shared["vercheck"], "libversion", "x"], capture_output=True, text=True)
    return R.parse_version(r.stdout.strip())


def enum_runtime(ctx):
    have = libversion(ctx)
    for mj in (0, 1, 2):
        for mn in sorted({0, have[1] - 1, have[1], have[1] + 1, 99} - {-1}):
            for pt in (0, 1, 99):
                yield {"mode": "check", "v": "%d.%d.%d" % (mj, mn, pt)}
    for s in MALFORMED + ["@NULL"]:
        yield {"mode": "check", "v": s}
        yield {"mode": "require", "v": s}
    for s in beyond(have):
        yield {"mode": "check", "v": s}
    for s in ["1.0.0", "0.0.1", "99.99.99", "2.4.0-rc1"]:
        yield {"mode": "require", "v": s}
    # several checks in one process: every call is decided on its own argument
    good = ["%d.%d.0" % (have[0], have[1]), "%d.0.9" % have[0]]
    bad = ["%d.%d.0" % (have[0], have[1] + 1), "%d.%d.0" % (have[0] + 1, have[1]), "%d.0.0" % max(0, have[0] - 1) if have[0] else "7.0.0",
           "1.2", "", "a.b.c", "-1.0.0", "@NULL"]
    for g in good:
        for b_ in bad:
            yield {"mode": "checkseq", "vs": [g, b_]}
            yield {"mode": "checkseq", "vs": [g, good[0], b_]}
    yield {"mode": "checkseq", "vs": good + good}
    # the same from several threads at once: compatible versions stay compatible
    for nth in (2, 4, 8, 16):
        for rep in range(3):
            yield {"mode": "checkpar", "threads": nth, "rounds": 400000, "rep": rep,
                   "vs": good + ["%d.%d.%d-rc1" % (have[0], have[1], rep), "%d.0.0" % have[0]]}


def run_runtime(case, ctx):
    have = libversion(ctx)
    if case["mode"] == "checkpar":
        d = ctx.newdir()
        try:
            r = tools.run([ctx.shared["vercheck"], "checkpar", str(case["threads"]), str(case["rounds"])] + case["vs"], cwd=d, cpu_s=120, wall_s=300)
        finally:
            ctx.rmdir(d)
        if r.kind != "ok" or b"returned" not in r.out:
            raise Violation("%d threads checking the compatible versions %s concurrently (library %s): %s" % (case["threads"], case["vs"], have, r.brief()))
        return {"nt": True, "cls": ["runtime:concurrent-checks"]}
    if case["mode"] == "checkseq":
        d = ctx.newdir()
        try:
            r = tools.run([ctx.shared["vercheck"], "checkseq"] + case["vs"], cwd=d)
        finally:
            ctx.rmdir(d)
        nret = r.out.count(b"returned")
        exp = 0
        for v in case["vs"]:
            w = R.parse_version(v) if v != "@NULL" else None
            if w is None or not compat(w, have):
                break
            exp += 1
        if nret != exp:
            raise Violation("checks %s in one process (library %s): %d calls returned, %d are compatible before the first that must be refused" % (case["vs"], have, nret, exp))
        if exp < len(case["vs"]) and not (r.kind == "signal" and r.sig == 6 and r.err.strip()):
            raise Violation("checks %s in one process: the incompatible one did not abort with a diagnostic: %s" % (case["vs"], r.brief()))
        if exp == len(case["vs"]) and r.kind != "ok":
            raise Violation("checks %s in one process: %s" % (case["vs"], r.brief()))
        return {"nt": True, "cls": ["runtime:check-sequence"]}
    d = ctx.newdir()
    try:
        r = tools.run([ctx.shared["vercheck"], case["mode"], case["v"]], cwd=d, env={"OVNI_TRACEDIR": os.path.join(d, "ovni")})
    finally:
        ctx.rmdir(d)
    want = R.parse_version(case["v"]) if case["v"] != "@NULL" else None
    if len(case["v"]) >= 64:
        want = None
    if case["mode"] == "check":
        ok = want is not None and compat(want, have)
    else:
        ok = want is not None     # require only validates the string
    returned = r.kind == "ok" and b"returned" in r.out
    refused = r.kind == "signal" and r.sig == 6
    if ok and not returned:
        raise Violation("runtime refused %s %r (library %s): %s" % (case["mode"], case["v"], have, r.brief()))
    if not ok:
        if returned:
            raise Violation("runtime accepted %s %r (library %s)" % (case["mode"], case["v"], have))
        if not refused:
            raise Violation("runtime did not abort cleanly on %s %r: %s" % (case["mode"], case["v"], r.brief()))
        if not r.err.strip():
            raise Violation("runtime refused %r without a diagnostic" % case["v"])
    return {"nt": want != have, "cls": ["runtime:" + case["mode"]]}


# (c) emulator
def advertised(ctx):
    r = tools.emu(ctx.b("plain"), "-h") if False else tools.run([ctx.b("plain").tool("ovniemu"), "-h"])
    out = {}
    for l in r.err.decode().split("\n"):
        m = re.match(r"^\s+(\S)\s+(\w+)\s+(\d+\.\d+\.\d+)\s*$", l)
        if m:
            out[m.group(2)] = (m.group(1), R.parse_version(m.group(3)))
    return out


PROBE = {"V": "VAr", "6": "6W[", "D": "DR[", "M": "MS[", "T": "TCi", "P": "PBb", "K": "KCO"}
PROBE_END = {"V": "VAR", "6": "6W]", "D": "DR]", "M": "MS]", "T": "TCI", "P": "PBB", "K": "KCI"}


def enum_emu(ctx):
    adv = advertised(ctx)
    for name, (ch, have) in sorted(adv.items()):
        majors = sorted({0, have[0] - 1, have[0], have[0] + 1} - {-1})
        minors = sorted({0, have[1] - 1, have[1], have[1] + 1, have[1] + 7} - {-1})
        for mj in majors:
            for mn in minors:
                for pt in (0, have[2] + 3):
                    yield {"mode": "version", "model": name, "want": [mj, mn, pt]}
        for s in ["", "1", "1.2", "a.b.c", "-1.0.0", "%d.0x%d.0" % (have[0], have[1]), "0x%d.%d.0" % (have[0], have[1])] + beyond(have):
            yield {"mode": "version", "model": name, "want": s}
    # several streams requiring the same model with different versions: every stream counts
    for name, (ch, have) in sorted(adv.items()):
        good = "%d.%d.%d" % have
        older = "%d.%d.%d" % (have[0], max(0, have[1] - 1), 7)
        bads = ["%d.%d.0" % (have[0] + 1, have[1]), "%d.%d.0" % (have[0], have[1] + 1), "banana", "1.2"]
        for bad in bads:
            for vers in ([good, bad], [bad, good], [good, older, bad], [older, bad, good], [good, good, good], [older, good]):
                yield {"mode": "multi", "model": name, "versions": vers}
    # streams with different requirement sets: a model is enabled when SOME stream requires it,
    # whichever it is in the emulator's thread order
    for m in sorted(PROBE):
        for n in (2, 3):
            for pos in range(n):
                yield {"mode": "spread", "model": m, "n": n, "pos": pos, "other": None}
                yield {"mode": "spread", "model": m, "n": n, "pos": pos, "other": sorted(PROBE)[(sorted(PROBE).index(m) + 1) % len(PROBE)]}
    others = sorted(PROBE)
    for mask in range(1 << len(others)):
        sub = [m for i, m in enumerate(others) if mask >> i & 1]
        yield {"mode": "subset", "models": sub, "all": False}
    for mask in (0, 5, 127):
        sub = [m for i, m in enumerate(others) if mask >> i & 1]
        yield {"mode": "subset", "models": sub, "all": True}


def run_emu(case, ctx):
    adv = advertised(ctx)
    b = ctx.b("plain")
    if case["mode"] == "version":
        name = case["model"]
        ch, have = adv[name]
        w = case["want"]
        ws = w if isinstance(w, str) else "%d.%d.%d" % tuple(w)
        req = {"ovni": "%d.%d.%d" % adv["ovni"][1]}
        req[name] = ws
        evs = [T.OHx(100, 0)]
        if ch != "O":
            evs += [T.plain(PROBE[ch], 110), T.plain(PROBE_END[ch], 120)]
        evs.append(T.plain("OHe", 130))
        tr = {"streams": [{"loom": "n.0", "pid": 1, "tid": 1, "app": 1, "cpus": [[0, 0]], "require": req, "events": evs}]}
        wv = R.parse_version(ws)
        ok = wv is not None and compat(wv, have)
        # forcing all models on (-a) does not waive the version requirement of a stream
        for flags in (("-l",), ("-a",), ("-l", "-a")):
            d = ctx.newdir()
            try:
                T.write_trace(tr, d)
                r = tools.emu(b, d, flags)
            finally:
                ctx.rmdir(d)
            if r.kind not in ("ok", "rejected"):
                raise Violation("emulator crashed on required version %s=%r: %s" % (name, ws, r.brief()))
            if ok != r.ok:
                raise Violation("trace requiring %s %s (emulator has %s) with %s: %s" % (
                    name, ws, have, " ".join(flags), "accepted" if r.ok else "rejected: " + r.brief()))
        return {"nt": wv != have, "cls": ["emu:version"]}
    if case["mode"] == "multi":
        name = case["model"]
        ch, have = adv[name]
        streams = []
        allok = True
        for i, ws in enumerate(case["versions"]):
            req = {"ovni": "%d.%d.%d" % adv["ovni"][1]}
            req[name] = ws
            wv = R.parse_version(ws)
            allok = allok and wv is not None and compat(wv, have)
            evs = [T.OHx(100 + i, -1), T.plain("OHe", 200 + i)]
            s = {"loom": "n.0", "pid": 1, "tid": 1 + i, "app": 1, "require": req, "events": evs}
            if i == 0:
                s["cpus"] = [[0, 0]]
            streams.append(s)
        d = ctx.newdir()
        try:
            T.write_trace({"streams": streams}, d)
            r = tools.emu(b, d, ("-l",))
        finally:
            ctx.rmdir(d)
        if r.kind not in ("ok", "rejected"):
            raise Violation("emulator crashed on versions %s of %s: %s" % (case["versions"], name, r.brief()))
        if r.ok != allok:
            raise Violation("streams requiring %s versions %s (emulator has %s): trace %s" % (name, case["versions"], have, "accepted" if r.ok else "rejected"))
        return {"nt": True, "cls": ["emu:multi-stream"]}
    if case["mode"] == "spread":
        m, n, pos, other = case["model"], case["n"], case["pos"], case["other"]
        streams = []
        for i in range(n):
            req = {"ovni": "%d.%d.%d" % adv["ovni"][1]}
            evs = [T.OHx(100 + i, -1)]
            if i == pos:
                req[R.MODEL_NAMES[m]] = "%d.%d.%d" % adv[R.MODEL_NAMES[m]][1]
                evs += [T.plain(PROBE[m], 110 + i), T.plain(PROBE_END[m], 120 + i)]
            elif other is not None:
                req[R.MODEL_NAMES[other]] = "%d.%d.%d" % adv[R.MODEL_NAMES[other]][1]
                evs += [T.plain(PROBE[other], 110 + i), T.plain(PROBE_END[other], 120 + i)]
            evs.append(T.plain("OHe", 200 + i))
            st_ = {"loom": "n.0", "pid": 1, "tid": [999, 1000, 1001][i] if n == 3 else [9, 10][i], "app": 1, "require": req, "events": evs}
            if i == 0:
                st_["cpus"] = [[0, 0]]
            streams.append(st_)
        for flags in ((), ("-l",)):
            d = ctx.newdir()
            try:
                T.write_trace({"streams": streams}, d)
                r = tools.emu(b, d, flags)
            finally:
                ctx.rmdir(d)
            if not r.ok:
                raise Violation("model %s is required by stream %d of %d (the others require %s): its events are rejected: %s" % (
                    m, pos, n, other or "only ovni", r.brief()))
        return {"nt": True, "cls": ["emu:requirements-spread-over-streams"]}
    sub = case["models"]
    req = {"ovni": "%d.%d.%d" % adv["ovni"][1]}
    for m in sub:
        n = R.MODEL_NAMES[m]
        req[n] = "%d.%d.%d" % adv[n][1]
    flags = ("-a",) if case["all"] else ()
    for m in sorted(PROBE):
        evs = [T.OHx(100, 0), T.plain(PROBE[m], 110), T.plain(PROBE_END[m], 120), T.plain("OHe", 130)]
        tr = {"streams": [{"loom": "n.0", "pid": 1, "tid": 1, "app": 1, "cpus": [[0, 0]], "require": req, "events": evs}]}
        d = ctx.newdir()
        try:
            T.write_trace(tr, d)
            r = tools.emu(b, d, flags)
        finally:
            ctx.rmdir(d)
        exp = case["all"] or m in sub
        if r.kind not in ("ok", "rejected"):
            raise Violation("emulator crashed: %s" % r.brief())
        if r.ok != exp:
            raise Violation("probe of model %s with required set %s%s: %s" % (m, sub, " and -a" if case["all"] else "",
                                                                            "accepted" if r.ok else "rejected"))
    return {"nt": True, "cls": ["emu:subset"]}


def parts(tier):
    return [
        Part("compatible-exhaustive", run_pairs, enum=enum_pairs),
        Part("parse", run_parse, strategy=lambda ctx: strings(), budget={"quick": 1500, "thorough": 20000}),
        Part("runtime", run_runtime, enum=enum_runtime),
        Part("emulator", run_emu, enum=enum_emu),
    ]
