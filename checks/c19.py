"""C19 — tools are total: any trace bytes give a clean exit (DESIGN section 4, C19)."""
import json, os, shutil, struct
from hypothesis import strategies as st
from vlib.runner import Part, Violation
from vlib import gen, refmodel as R, trace as T, tools, obs, evdoc, judge

ID = "C19"
VARIANTS = ["asan", "fuzz"]
TARGETS = ["ovniemu", "ovnidump", "ovnitop", "ovnisort", "emu"]
LEVEL = "exploration"
RULE = ("valid traces (model-guided histories over all models, optionally with unsorted regions) with 1-3 "
        "structure-aware mutations of stream.obs (flags nibble, jumbo bit, jumbo size at edge values, truncation at "
        "any offset incl. page multiples, clock extremes, listed MCVs with shorter/empty/longer payloads, very long string arguments, one argument word set to an extreme or small-index value, the stream ending on a clean boundary with one (mal)formed event or an opened sort region, byte "
        "flips, inserted garbage) and of stream.json (type confusion per key, missing keys, huge/negative/"
        "fractional numbers, deep nesting, long strings, '/' in names, empty arrays, duplicate keys, non-UTF-8, "
        "truncated/empty file, CPU lists in any order with conflicts, malformed mark definitions); each mutant is "
        "given to ovniemu (-l, -b, -a, -d), ovnidump (plain and -x), ovnitop and ovnisort (sort on a copy, -c, -n 3, 1, 0), built with ASan+UBSan subset and the exact-size heap buffer hook.  Oracle: exit status 0 or 1, a "
        "diagnostic when 1, no signal, no sanitizer report, CPU time < 10 s.  An enumerated part gives every listed event code with every payload size (normal and jumbo, as the last event of the stream or not) to 7 tool invocations.  Plus 16 libFuzzer instances (half from an "
        "empty corpus, half seeded with valid streams) on the in-process target fuzz_stream (stream_load/stream_step/"
        "emu_ev/model_event_print with in-target oracle: offset strictly increasing inside the stream, bounded step "
        "count, every declared payload byte readable).  Non-trivial = the mutant still passes "
        "the stream header check and holds >= 1 event; distinct = input hash.")
ASSUMPTIONS = ["UBSan arithmetic checks (signed overflow, shifts, float casts) are off: the property promises no crash/hang/out-of-bounds, not absence of arithmetic UB on hostile clocks",
               "a wall-clock overrun without CPU exhaustion is inconclusive, never a violation"]


def models_draw(draw):
    return draw(st.lists(st.sampled_from(gen.ALL_MODELS), unique=True, min_size=0, max_size=3))


PROF = gen.Profile(kinds=["region"] * 3 + ["task"] * 3 + ["idle", "mark", "flush", "noeffect", "kernel"] + ["state"] * 2 + ["affinity"],
                   models=models_draw, max_looms=2, max_procs=2, max_threads=2, max_cpus=3,
                   steps=(3, 30), modes=("legal",), lint=False, marks=1, ranks=True, breakdown=True)

OBS_MUTS = ["flags", "jumbobit", "jumbosize", "truncate", "truncate-page", "clock", "payload-shape", "byteflip",
            "insert", "mcv", "dup-event", "header", "longstr", "last-event", "last-event", "arg-extreme", "arg-extreme"]
JSON_MUTS = ["typeconf", "delkey", "number", "nest", "longstr", "slash", "emptyarr", "dupkey", "nonutf8",
             "truncjson", "emptyjson", "cpus", "marks", "require"]

EDGE32 = [0, 1, 2, 3, 4, 5, 2 ** 31 - 1, 2 ** 31, 2 ** 32 - 16, 2 ** 32 - 13, 2 ** 32 - 12, 2 ** 32 - 4, 2 ** 32 - 1]
CLOCKS = [0, 1, 2 ** 62, 2 ** 63 - 1, 2 ** 63, 2 ** 64 - 1]
_listed = None


def listed():
    global _listed
    if _listed is None:
        _m, decls = evdoc.load()
        _listed = [d.mcv for d in decls]
    return _listed


@st.composite
def cases(draw):
    base = draw(gen.history(PROF))
    nm = draw(st.integers(1, 3))
    muts = []
    for _ in range(nm):
        if draw(st.integers(0, 2)) != 0:
            muts.append(["obs", draw(st.sampled_from(OBS_MUTS))] + [draw(st.integers(0, 2 ** 31)) for _ in range(4)])
        else:
            muts.append(["json", draw(st.sampled_from(JSON_MUTS))] + [draw(st.integers(0, 2 ** 31)) for _ in range(4)])
    unsorted_regions = draw(st.booleans())
    return {"base": base, "muts": muts, "ou": unsorted_regions}


def mutate_obs(data, kind, a, b, c, d):
    try:
        evs = obs.decode_stream(data, strict=False)
    except obs.DecodeError:
        evs = []
    ba = bytearray(data)
    if kind == "header":
        pos = a % 8
        if pos >= len(ba):
            return data        # an earlier mutation already cut the header
        ba[pos] = b % 256
        return bytes(ba)
    if kind == "truncate":
        return data[:a % (len(data) + 1)]
    if kind == "truncate-page":
        page = 4096 * (1 + a % 2)
        if len(data) < page:
            pad = obs.encode_ev("OB.", evs[-1].clock if evs else 0)
            tail = data[-12:] if len(data) >= 20 else b""
            body = data[:-12] if tail else data
            while len(body) + len(tail) < page + 40:
                body += pad
            data = body + tail
        return data[:page - (b % 13)] if c % 2 else data[:page]
    if kind == "byteflip":
        if not ba:
            return data
        pos = a % len(ba)
        ba[pos] ^= 1 << (b % 8)
        return bytes(ba)
    if kind == "insert":
        pos = a % (len(ba) + 1)
        junk = bytes((b >> (8 * i)) & 0xff for i in range(4)) * (1 + c % 5)
        return bytes(ba[:pos]) + junk + bytes(ba[pos:])
    if not evs:
        return data
    e = evs[a % len(evs)]
    off = e.offset
    if kind == "flags":
        ba[off] = (ba[off] & 0xf0) | (b % 16)
        return bytes(ba)
    if kind == "jumbobit":
        ba[off] ^= 0x10
        if c % 2:
            ba[off] = (ba[off] & 0xf0) | 3
        return bytes(ba)
    if kind == "jumbosize":
        rest = len(data) - off - 16
        vals = EDGE32 + [max(0, rest - 1), max(0, rest), rest + 1]
        v = vals[b % len(vals)] & 0xffffffff
        ba[off] = 0x13
        if off + 16 <= len(ba):
            ba[off + 12:off + 16] = struct.pack("<I", v)
        else:
            ba += struct.pack("<I", v)
        return bytes(ba)
    if kind == "clock":
        ba[off + 4:off + 12] = struct.pack("<Q", CLOCKS[b % len(CLOCKS)])
        return bytes(ba)
    if kind == "longstr":
        # a well-formed jumbo event with a very long nil-terminated string argument
        mcv = ["VYc", "6Yc"][b % 2]
        n = [900, 1000, 1023, 1024, 1100, 2000, 5000, 70000, 1 << 20][c % 9]
        body = struct.pack("<I", 1 + d % 50) + bytes([65 + (d % 26)]) * n + (b"\0" if (d >> 8) % 4 else b"")
        new = obs.encode_ev(mcv, e.clock, body, jumbo=True)
        return data[:off] + new + data[off:]
    if kind == "last-event":
        # the stream ends on a clean event boundary with one event of a chosen shape:
        # whatever a handler reads beyond that event's declared bytes is outside the stream
        sub = b % 7
        mcvj = ["VYc", "6Yc"][c % 2]
        k = (c >> 1) % 5
        if sub == 0:      # well-formed jumbo type event
            new = obs.encode_ev(mcvj, e.clock, struct.pack("<I", 1 + d % 50) + b"lbl\0", jumbo=True)
        elif sub == 1:    # jumbo too short for its arguments
            new = obs.encode_ev(mcvj, e.clock, bytes([1 + d % 255]) * k, jumbo=True)
        elif sub == 2:    # string argument without terminator
            n = [1, 3, 8, 100, 2000][k]
            new = obs.encode_ev(mcvj, e.clock, struct.pack("<I", 1 + d % 50) + bytes([65 + d % 26]) * n, jumbo=True)
        elif sub == 3:    # a listed event with a payload of some other size
            mcv = listed()[(d >> 3) % len(listed())]
            new = obs.encode_ev(mcv, e.clock, bytes([1 + d % 255]) * [0, 2, 3, 4, 7][k])
        elif sub == 4:    # the event itself stays, nothing follows
            new = e.raw
        elif sub == 6:    # the stream ends right after a sort region was opened (or closed)
            new = obs.encode_ev(["OU[", "OU]", "OU["][k % 3], e.clock)
        else:             # a listed event as a jumbo with little data
            mcv = listed()[(d >> 3) % len(listed())]
            new = obs.encode_ev(mcv, e.clock, bytes([1 + d % 255]) * [0, 1, 3, 4, 7][k], jumbo=True)
        return data[:off] + new
    if kind == "arg-extreme":
        # one argument word of an event that has a payload becomes an extreme value (what a
        # handler may use as an index: CPU, TID, task, type and mark numbers)
        withp = [x for x in evs if len(x.payload) >= 4]
        if not withp:
            return data
        rest = [x for x in withp if x.mcv != "OHx"]      # (every stream starts with an OHx)
        if rest and a % 4:
            withp = rest
        e = withp[(a // 4) % len(withp)]
        base = e.offset + (16 if e.jumbo else 12)
        wide = (c % 2 == 1) and len(e.payload) >= 8
        w = 8 if wide else 4
        k = (b % (len(e.payload) // w)) * w
        ext = [-1, -2 ** 31, 2 ** 31 - 1, -2, 0, 100, -100000, 65536, 2 ** 63 - 1, -2 ** 63, -2 ** 31 + 1, 2 ** 30,
               1, 2, 3, 4, 5, 6, 7]       # (one past the last CPU index, thread, type ... of small systems)
        v = ext[(d >> 2) % len(ext)]
        ba[base + k:base + k + w] = (v & (2 ** (8 * w) - 1)).to_bytes(w, "little")
        return bytes(ba)
    if kind == "payload-shape":
        mcv = listed()[b % len(listed())]
        sizes = [0, 2, 3, 4, 7, 8, 12, 15, 16]
        n = sizes[c % len(sizes)]
        new = obs.encode_ev(mcv, e.clock, bytes([d % 256]) * n)
        return data[:off] + new + data[off + len(e.raw):]
    if kind == "mcv":
        chars = [b % 256, c % 256, d % 256]
        ba[off + 1:off + 4] = bytes(chars)
        return bytes(ba)
    if kind == "dup-event":
        return data[:off] + e.raw + data[off:]
    return data


def jget(m, path):
    d = m
    for p in path[:-1]:
        d = d.get(p) if isinstance(d, dict) else None
        if d is None:
            return None, None
    return d, path[-1]


KEYS = [["version"], ["ovni"], ["ovni", "part"], ["ovni", "tid"], ["ovni", "pid"], ["ovni", "loom"], ["ovni", "app_id"],
        ["ovni", "rank"], ["ovni", "nranks"], ["ovni", "require"], ["ovni", "require", "ovni"], ["ovni", "finished"],
        ["ovni", "loom_cpus"], ["ovni", "lib"], ["ovni", "lib", "version"], ["ovni", "lib", "commit"], ["ovni", "mark"],
        ["ovni", "mark", "0"], ["ovni", "mark", "0", "title"], ["ovni", "mark", "0", "chan_type"], ["ovni", "mark", "0", "labels"],
        ["nosv"], ["nosv", "can_breakdown"]]
CONF = [None, True, False, 0, -1, 1.5, 1e300, -2 ** 63, 2 ** 64, "", "x", "thread", [], [1, "a"], {}, {"a": {"b": 1}}, [[]], "1", [None]]


def mutate_json(text, kind, a, b, c, d):
    if kind == "emptyjson":
        return ""
    if kind == "truncjson":
        return text[:a % (len(text) + 1)]
    if kind == "nonutf8":
        pos = a % (len(text) + 1)
        return text[:pos] + "\udcff\udcfe" + text[pos:]
    try:
        m = json.loads(text)
    except Exception:
        return text
    if not isinstance(m, dict):
        return text
    if kind == "dupkey":
        return text.replace('"ovni": {', '"ovni": {"tid": %d, "pid": "x", ' % (a % 5), 1)
    key = KEYS[a % len(KEYS)]
    par, k = jget(m, key)
    if not isinstance(par, dict):
        par, k = m, "ovni"
    if kind == "typeconf":
        if par is None:
            par, k = m, "ovni"
        par[k] = CONF[b % len(CONF)]
    elif kind == "delkey":
        if par is not None and isinstance(par, dict):
            par.pop(k, None)
    elif kind == "number":
        nums = [0, -1, 2 ** 31 - 1, 2 ** 31, -2 ** 31 - 1, 2 ** 53, 1e308, 0.5, -0.0, 3.9999]
        if par is not None:
            par[k] = nums[b % len(nums)]
    elif kind == "nest":
        v = 1
        for _ in range(1 + b % 400):
            v = {"a": v} if c % 2 else [v]
        if par is not None:
            par[k] = v
    elif kind == "longstr":
        sv = "A" * (1 + (b % 5) * 2000)
        if par is not None:
            par[k] = sv
    elif kind == "slash":
        o = m.get("ovni")
        if isinstance(o, dict):
            o["loom"] = ["a/b", "../x", "/", "a.b/c.d", ""][b % 5]
    elif kind == "emptyarr":
        o = m.get("ovni")
        if isinstance(o, dict):
            o["loom_cpus"] = []
    elif kind == "cpus":
        o = m.get("ovni")
        if isinstance(o, dict):
            n = 1 + b % 5
            lst = []
            for i in range(n):
                idx = [i, n - 1 - i, 0, i * 3, -1, 2 ** 31][(c >> i) % 6]
                phy = [i, 0, 7, -1, 2 ** 31 + 5][(d >> i) % 5]
                ent = {"index": idx, "phyid": phy}
                if (c + i) % 11 == 0:
                    ent = [idx, phy]
                if (d + i) % 13 == 0:
                    ent.pop("phyid", None) if isinstance(ent, dict) else None
                lst.append(ent)
            o["loom_cpus"] = lst
    elif kind == "marks":
        o = m.get("ovni")
        if isinstance(o, dict):
            bad = [{"0": {"title": "t"}}, {"0": {"chan_type": "stack"}}, {"x": {"title": "t", "chan_type": "single"}},
                   {"100": {"title": "t", "chan_type": "single"}}, {"-1": {"title": "t", "chan_type": "single"}},
                   {"0": {"title": "t", "chan_type": "weird"}}, {"0": {"title": 5, "chan_type": "single"}},
                   {"0": {"title": "t", "chan_type": "single", "labels": {"a": "x"}}},
                   {"0": {"title": "t", "chan_type": "single", "labels": {"1": 2}}},
                   {"0": {"title": "t", "chan_type": "single", "labels": []}}, {"0": []}, [],
                   {"0": {"title": "t", "chan_type": "single", "labels": {"99999999999999999999": "x"}}},
                   {"0": {"title": "t", "chan_type": "single", "labels": {"4294967297": "x", "1": "y"}}}]
            o["mark"] = bad[b % len(bad)]
    elif kind == "require":
        o = m.get("ovni")
        if isinstance(o, dict):
            bad = [{}, {"ovni": 1}, {"ovni": "1.1.0", "nosv": None}, {"nosv": "2.4.0"}, {"ovni": "1.1.0", "bogus": "1.0.0"},
                   {"ovni": "1.1.0", "nosv": "x" * 100}, [], "ovni"]
            o["require"] = bad[b % len(bad)]
    try:
        return json.dumps(m)
    except (ValueError, OverflowError):
        return text


def add_unsorted_region(s, to_start=False):
    evs = s.get("events") or []
    if len(evs) < 4:
        return
    if to_start:
        # a region whose events belong before everything else in the stream
        k = 2
        clk = evs[k - 1][1]
        first = evs[0][1]
        ins = [T.ev("OU[", clk, ""), T.ev("OB.", first, ""), T.ev("OB.", first, ""), T.ev("OU]", clk, "")]
    else:
        clk = evs[len(evs) // 2][1]
        ins = [T.ev("OU[", clk, ""), T.ev("OB.", max(0, clk - 3), ""), T.ev("OB.", max(0, clk - 5), ""), T.ev("OU]", clk, "")]
        k = len(evs) // 2 + 1
    s["events"] = evs[:k] + ins + evs[k:]


def materialise(case):
    base = judge.strip(json.loads(json.dumps(case["base"])))
    streams = base["streams"]
    if case.get("ou"):
        # regions in the first and/or in a later stream (path order), sorting into
        # the middle or to the very start of the stream
        sel = case["muts"][0][2] if case.get("muts") else 0
        order = sorted(range(len(streams)), key=lambda i: T.stream_relpath(streams[i]))
        for j, i in enumerate(order):
            if (sel >> j) & 1 or (j == 0 and sel % 4 == 0):
                add_unsorted_region(streams[i], to_start=bool((sel >> (8 + j)) & 1))
    raw = []
    for s in streams:
        raw.append([T.stream_relpath(s), T.obs_bytes(s), T.json_text(s)])
    for mu in case["muts"]:
        tgt, kind, a, b, c, d = mu
        i = d % len(raw)
        if tgt == "obs":
            raw[i][1] = mutate_obs(raw[i][1], kind, a, b, c, d)
        else:
            raw[i][2] = mutate_json(raw[i][2], kind, a, b, c, d)
    return raw


TOOLRUNS = [("ovniemu", ["-l"]), ("ovniemu", ["-b"]), ("ovniemu", ["-a"]), ("ovniemu", ["-d"]), ("ovnidump", []), ("ovnidump", ["-x"]),
            ("ovnitop", []), ("ovnisort", ["-c"]), ("ovnisort", []), ("ovnisort", ["-n", "3"]), ("ovnisort", ["-n", "1"]), ("ovnisort", ["-n", "0"])]


def write_raw(raw, d):
    os.makedirs(os.path.join(d, "cfg"), exist_ok=True)
    for rel, ob, js in raw:
        p = os.path.join(d, rel)
        os.makedirs(p, exist_ok=True)
        with open(os.path.join(p, "stream.obs"), "wb") as f:
            f.write(ob)
        with open(os.path.join(p, "stream.json"), "wb") as f:
            f.write(js.encode("utf-8", "surrogateescape"))


def check_result(r, what):
    if r.kind in ("ok",):
        return
    if r.kind == "rejected":
        if not r.err.strip():
            raise Violation("%s: exit 1 without a diagnostic" % what)
        return
    if r.kind == "wall-timeout":
        return "inconclusive"
    raise Violation("%s: %s" % (what, r.brief()))


def run(case, ctx):
    b = ctx.b("asan")
    raw = materialise(case)
    ntr = False
    for rel, ob, js in raw:
        if ob[:8] == obs.HEADER and len(ob) >= 20:
            ntr = True
    nruns = 0
    incon = 0
    d = ctx.newdir()
    try:
        write_raw(raw, d)
        for tool, flags in TOOLRUNS:
            if tool == "ovnisort" and "-c" not in flags:
                # sort on a fresh copy
                d2 = ctx.newdir()
                try:
                    write_raw(raw, d2)
                    r = tools.run([b.tool(tool)] + flags + [d2], heapbuf=True, cpu_s=10, wall_s=120)
                finally:
                    ctx.rmdir(d2)
            else:
                r = tools.run([b.tool(tool)] + flags + [d], heapbuf=True, cpu_s=10, wall_s=120)
            nruns += 1
            if check_result(r, "%s %s" % (tool, " ".join(flags))) == "inconclusive":
                incon += 1
    finally:
        ctx.rmdir(d)
    ctx.stats.extra["tool_runs"] = ctx.stats.extra.get("tool_runs", 0) + nruns
    if incon:
        ctx.stats.extra["inconclusive_wall_timeouts"] = ctx.stats.extra.get("inconclusive_wall_timeouts", 0) + incon
    key = None
    return {"nt": ntr, "cls": ["mut:%s:%s" % (m[0], m[1]) for m in case["muts"]]}


# ---- every listed event code with every payload shape ---------------------------------

SHAPE_SIZES = [0, 2, 3, 4, 7, 8, 12, 15, 16]
SHAPE_JUMBO = [0, 1, 3, 4, 5, 8, 40]
SHAPE_RUNS = [("ovniemu", ["-l"]), ("ovniemu", ["-d"]), ("ovniemu", ["-a", "-b"]), ("ovnidump", []), ("ovnidump", ["-x"]),
              ("ovnitop", []), ("ovnisort", ["-c"])]


def enum_shapes(ctx):
    """(listed event code) x (payload size, normal and jumbo) x (followed by OHe / last event of the stream)"""
    models, decls = evdoc.load()
    quick = ctx.tier == "quick"
    for d in decls:
        for n in ([0, 3, 4, 8, 16] if quick else SHAPE_SIZES):
            yield {"mcv": d.mcv, "n": n, "jumbo": 0, "last": 1}
            if not quick:
                yield {"mcv": d.mcv, "n": n, "jumbo": 0, "last": 0}
        for n in (SHAPE_JUMBO[:4] if quick else SHAPE_JUMBO):
            yield {"mcv": d.mcv, "n": n, "jumbo": 1, "last": 1}
            if not quick:
                yield {"mcv": d.mcv, "n": n, "jumbo": 1, "last": 0}


def run_shape(case, ctx):
    b = ctx.b("asan")
    mcv = case["mcv"]
    models, decls = evdoc.load()
    req = {"ovni": models["O"][1]}
    m = mcv[0]
    if m in models and m != "O":
        req[models[m][0]] = models[m][1]
    body = bytes(range(1, 1 + case["n"]))
    evs = [T.OHx(100, 0), [mcv, 110, body.hex(), case["jumbo"]]]
    if not case["last"]:
        evs.append(T.plain("OHe", 120))
    tr = {"streams": [{"loom": "n.0", "pid": 1, "tid": 1, "app": 1, "cpus": [[0, 0], [1, 1]], "require": req,
                       "extra": {"ovni.mark": {"1": {"title": "m", "chan_type": "single"}}}, "events": evs}]}
    d = ctx.newdir()
    nruns = 0
    try:
        T.write_trace(tr, d)
        for tool, flags in SHAPE_RUNS:
            r = tools.run([b.tool(tool)] + flags + [d], heapbuf=True, cpu_s=10, wall_s=120)
            nruns += 1
            check_result(r, "%s %s on %s with %d %spayload bytes%s" % (tool, " ".join(flags), mcv, case["n"], "jumbo " if case["jumbo"] else "",
                                                                         " as the last event of the stream" if case["last"] else ""))
    finally:
        ctx.rmdir(d)
    ctx.stats.extra["tool_runs"] = ctx.stats.extra.get("tool_runs", 0) + nruns
    return {"nt": True, "cls": ["shape:%s" % ("jumbo" if case["jumbo"] else "normal")], "key": "%s/%d/%d/%d" % (mcv, case["n"], case["jumbo"], case["last"])}


# ---- in-process, coverage-guided (libFuzzer) ------------------------------------------

def setup(ctx):
    return {"fuzz_stream": ctx.b("fuzz").compile("fuzz_stream.c", "fuzz_stream", libs="emu", extra="-fsanitize=fuzzer,address")}


def seed_streams():
    P = T.P
    out = []
    out.append(T.obs_bytes({"events": [T.OHx(1, 0), T.plain("OB.", 2), T.mark("=", 3, 5, 0), T.plain("OHe", 9)]}))
    out.append(T.obs_bytes({"events": [T.OHx(1, 0), T.type_create("V", 2, 1, "alpha"), T.ev("VTc", 3, P("II", 1, 1)),
                                       T.ev("VTx", 4, P("II", 1, 0)), T.ev("VTe", 5, P("II", 1, 0)), T.plain("OHe", 9)]}))
    out.append(T.obs_bytes({"events": [T.OHx(1, 0), T.jumbo("OB.", 2, b"x" * 100), T.OAs(3, 0), T.OAr(4, 0, 1),
                                       T.plain("OF[", 5), T.plain("OF]", 6), T.plain("OHe", 9)]}))
    return out


def enum_fuzz(ctx):
    for i in range(16):
        yield {"inst": i}


def run_fuzz(case, ctx):
    exe = ctx.shared["fuzz_stream"]
    d = ctx.newdir()
    try:
        if "input_hex" in case:
            # replay of a saved crashing input
            inp = os.path.join(d, "input")
            open(inp, "wb").write(bytes.fromhex(case["input_hex"]))
            r = tools.run([exe, "-detect_leaks=0", inp], cwd=d, env={"FUZZ_TMP": d, "ASAN_OPTIONS": "detect_leaks=0:log_path=%s/asan" % d}, cpu_s=60)
            if r.kind != "ok":
                raise Violation("fuzz_stream crashes on the saved input (%d bytes): %s" % (len(case["input_hex"]) // 2, _asan_log(d)))
            return {"nt": True, "cls": ["fuzz:replay"]}
        corp = os.path.join(d, "corpus")
        art = os.path.join(d, "art")
        os.makedirs(corp)
        os.makedirs(art)
        seeded = case["inst"] % 2 == 1
        if seeded:
            for i, b_ in enumerate(seed_streams()):
                open(os.path.join(corp, "seed%d" % i), "wb").write(b_)
        secs = 20 if ctx.tier == "quick" else 600
        r = tools.run([exe, "-detect_leaks=0", "-max_total_time=%d" % secs, "-max_len=%d" % (700 if case["inst"] % 4 else 9000),
                       "-seed=%d" % (1 + ctx.seed * 16 + case["inst"]), "-artifact_prefix=" + art + "/", corp],
                      cwd=d, env={"FUZZ_TMP": d, "ASAN_OPTIONS": "detect_leaks=0:log_path=%s/asan" % d},
                      cpu_s=secs * 3 + 60, wall_s=secs * 3 + 120)
        crashes = [f for f in os.listdir(art) if f.startswith("crash-")]
        n = len(os.listdir(corp))
        ctx.stats.extra["fuzz_corpus_entries"] = ctx.stats.extra.get("fuzz_corpus_entries", 0) + n
        ctx.stats.extra["fuzz_seconds"] = ctx.stats.extra.get("fuzz_seconds", 0) + secs
        if crashes:
            data = open(os.path.join(art, crashes[0]), "rb").read()
            case["input_hex"] = data.hex()
            raise Violation("fuzz_stream: in-target oracle or sanitizer tripped on a %d-byte stream: %s" % (len(data), _asan_log(d)))
        return {"nt": n > 3, "cls": ["fuzz:seeded" if seeded else "fuzz:empty-corpus"], "key": "fuzz%d" % case["inst"],
                "sample": {"libfuzzer_instance": case["inst"], "seconds": secs, "corpus_entries": n}}
    finally:
        ctx.rmdir(d)


def _asan_log(d):
    out = []
    for f in os.listdir(d):
        if f.startswith("asan"):
            out.append(open(os.path.join(d, f), errors="replace").read())
    txt = "\n".join(out)
    lines = [l.strip() for l in txt.split("\n") if "ERROR" in l or "SUMMARY" in l or " in " in l][:6]
    return " | ".join(lines)[:600] or "trap in target (offset / step bound oracle)"


def parts(tier):
    return [Part("mutated-traces", run, strategy=lambda ctx: cases(), budget={"quick": 4000, "thorough": 40000},
                 cap_s={"quick": 400, "thorough": 3400}),
            Part("listed-event-shapes", run_shape, enum=enum_shapes, cap_s={"quick": 300, "thorough": 3000}),
            Part("fuzz-stream", run_fuzz, enum=enum_fuzz, cap_s={"quick": 200, "thorough": 3000})]
