"""C02 — conformant programs give valid, accepted traces (DESIGN section 4, C02)."""
import os, json
from hypothesis import strategies as st
from vlib.runner import Part, Violation
from vlib import rt, obs, gen, refmodel as R, trace as T, tools, judge
from checks import c01

ID = "C02"
VARIANTS = ["asan"]
TARGETS = ["ovni-static", "ovniemu", "ovnidump", "ovnisort"]
LEVEL = "exploration"
RULE = ("protocol-conformant libovni programs (1-3 threads of one process, turn-based so the global order is "
        "scripted): proc_init, thread_init, require, add_cpu, OHx, then events that are legal under the "
        "reference model (bursts incl. jumbo bursts, marks defined through the mark API, OHp/OHr/OHc/OHw, OAs, "
        "regions and tasks of required models, attribute sets and ovni_attr_flush at generated points), clocks from ovni_clock_now(), OHe, flush, thread_free, proc_fini; "
        "half of the programs put a filler jumbo burst so that later events cross the 2 MiB buffer boundary, "
        "including jumbo events of every total size MAX-40..MAX-1 on an empty or one-event buffer; 40% of the runs under a shim that turns every write() into a real short write.  Oracle: "
        "(1) every stream.obs passes the independent validator (header, tiling, non-decreasing clocks, OF[ / OF] "
        "strictly alternating, never nested or left open) and equals the emit log; (2) stream.json is complete "
        "(version 3, part, tid, pid, loom, app_id, require, lib.version/commit, finished = 1, the CPUs added); "
        "(3) ovniemu -l exits 0.  One program in six runs into a directory that already holds longer streams of an earlier run with the same ids.  An enumerated part runs programs with 1100 / 3x400 (thorough: more) short-lived threads and the tools under the default open-files limit of 1024.  Plus free-running conformant programs of 2-8 threads with multi-MiB streams whose thread_free calls are released together (direct and OVNI_TMPDIR), same oracle.  Non-trivial = an automatic flush happened; distinct = script.")
ASSUMPTIONS = ["turn-based execution: ovni_clock_now() is monotonic across threads of the process (CLOCK_MONOTONIC)"]

MAX = rt.MAX_EV_BUF


def setup(ctx):
    b = ctx.b("asan")
    return {"rtdrv": rt.compile_driver(b), "shim": rt.compile_shim(b),
            "manythreads": b.compile("manythreads.c", "manythreads", libs="rt")}


def models_draw(draw):
    # no kernel model: a thread that is out of the CPU cannot emit (fillers and flush markers are ovni events)
    return draw(st.lists(st.sampled_from(["V", "6", "M", "T"]), unique=True, max_size=2))


PROF = gen.Profile(kinds=["noeffect"] * 3 + ["mark"] * 2 + ["state"] * 2 + ["affinity", "region", "region", "task"],
                   models=models_draw, max_looms=1, max_procs=1, max_threads=3, max_cpus=3,
                   steps=(4, 40), modes=("legal",), lint=True, marks=2, unwind=True)


@st.composite
def programs(draw):
    tr = draw(gen.history(PROF))
    fill = []
    if draw(st.integers(0, 3)) != 0:
        nthreads = len(tr["streams"])
        for _ in range(draw(st.integers(1, 2))):
            t = draw(st.integers(0, nthreads - 1))
            nev = len(tr["streams"][t]["events"])
            if nev < 2:
                continue
            pos = draw(st.integers(1, nev - 1))     # after OHx, before OHe
            mode = draw(st.sampled_from(["near", "near", "exact-window"]))
            if mode == "near":
                delta = draw(st.integers(0, 80))
            else:
                delta = draw(st.integers(1, 40))
            fill.append([t, pos, mode, delta, draw(st.integers(0, 1))])
    # attribute API: sets and attr_flush at generated positions (incl. right before thread_free)
    attrs = []
    for _ in range(draw(st.integers(0, 3))):
        t = draw(st.integers(0, len(tr["streams"]) - 1))
        nev = len(tr["streams"][t]["events"])
        attrs.append([t, draw(st.integers(0, nev)), draw(st.sampled_from(["flush", "flush", "set"])), draw(st.integers(0, 50))])
    return {"trace": tr, "fill": fill, "short": draw(st.sampled_from([None, None, None, "half", "one"])),
            "tmpdir": draw(st.integers(0, 3)) == 0, "attrs": attrs,
            # one program in six runs into a trace directory that already holds the (longer) streams of
            # an earlier run with the same loom, pid and thread ids
            "rerun": draw(st.integers(0, 5)) == 0}


def to_script(case):
    tr = case["trace"]
    streams = tr["streams"]
    s0 = streams[0]
    lines = ["MODE turn", "P version %s" % rt.hx("1.0.0"), "P init %d %s %d" % (s0["app"], rt.hx(s0["loom"]), s0["pid"])]
    for i, s in enumerate(streams):
        lines.append("T%d init %d" % (i, s["tid"]))
        for name, ver in sorted(s["require"].items()):
            if name != "ovni":
                lines.append("T%d require %s %s" % (i, rt.hx(name), rt.hx(ver)))
        for idx, phy in (s.get("cpus") or []):
            lines.append("T%d cpu %d %d" % (i, idx, phy))
        if s.get("rank"):
            lines.append("T%d rank %d %d" % (i, s["rank"][0], s["rank"][1]))
        marks = (s.get("extra") or {}).get("ovni.mark") or {}
        for mt, d in sorted(marks.items()):
            lines.append("T%d mtype %s %d %s" % (i, mt, 1 if d["chan_type"] == "stack" else 0, rt.hx(d["title"])))
            for v, lab in sorted((d.get("labels") or {}).items()):
                lines.append("T%d mlabel %s %s %s" % (i, mt, v, rt.hx(lab)))
    # global order of the model trace = clock order (distinct clocks across streams)
    evs = []
    for i, s in enumerate(streams):
        for k, e in enumerate(s["events"]):
            evs.append((e[1], i, k, e))
    evs.sort(key=lambda x: (x[0], x[1], x[2]))
    fills = {}
    for (t, pos, mode, delta, pre) in case["fill"]:
        fills.setdefault((t, pos), []).append((mode, delta, pre))
    fill_level = [0] * len(streams)
    attr_at = {}
    for (t, pos, what, val) in case.get("attrs", []):
        attr_at.setdefault((t, pos), []).append((what, val))

    def attr_lines(i, k):
        out = []
        for (what, val) in attr_at.get((i, k), []):
            if what == "flush":
                out.append("T%d attr_flush" % i)
            else:
                out.append("T%d attr num %s %s" % (i, rt.hx("verif.t%d.v" % i), rt.hx(str(val))))
        return out

    def account(i, size):
        if fill_level[i] + size >= MAX:
            fill_level[i] = size + 24
        else:
            fill_level[i] += size
    for (_clk, i, k, e) in evs:
        lines += attr_lines(i, k)
        for (mode, delta, pre) in fills.get((i, k), []):
            if mode == "near":
                n = MAX - delta - fill_level[i] - 16
                if n >= 0:
                    lines.append("T%d jumbo %s now %d %d" % (i, rt.hx("OB."), n, delta))
                    account(i, 16 + n)
            else:
                # a jumbo event of total size MAX-delta on an empty / one-event buffer
                lines.append("T%d flush" % i)
                fill_level[i] = 24
                if pre:
                    lines.append("T%d ev %s now" % (i, rt.hx("OB.")))
                    account(i, 12)
                n = MAX - delta - 16
                lines.append("T%d jumbo %s now %d %d" % (i, rt.hx("OB."), n, delta))
                account(i, 16 + n)
        mcv, _c, phex, jumbo = e
        if mcv in ("OM=", "OM[", "OM]"):
            import struct
            v, mt = struct.unpack("<qi", bytes.fromhex(phex))
            lines.append("T%d %s %d %d" % (i, {"OM=": "mset", "OM[": "mpush", "OM]": "mpop"}[mcv], mt, v))
            account(i, 24)
        elif jumbo:
            # type creation etc.: emit through the jumbo API with the literal payload
            data = bytes.fromhex(phex)
            lines.append("T%d jumbolit %s now %s" % (i, rt.hx(mcv), data.hex() or "-"))
            account(i, 16 + len(data))
        else:
            lines.append("T%d ev %s now %s" % (i, rt.hx(mcv), phex))
            account(i, 12 + len(phex) // 2)
    for i, s in enumerate(streams):
        lines.append("T%d flush" % i)
        lines += attr_lines(i, len(s["events"]))      # after the last event: e.g. attr_flush just before thread_free
        lines.append("T%d free" % i)
    lines.append("P fini")
    return lines


def check_meta(path, s, streams_cpus):
    try:
        m = json.load(open(path))
    except Exception as e:
        return "unparsable stream.json: %s" % e
    o = m.get("ovni", {})
    if m.get("version") != 3:
        return "metadata version %r" % m.get("version")
    for k, v in (("part", "thread"), ("tid", s["tid"]), ("pid", s["pid"]), ("loom", s["loom"]), ("app_id", s["app"]), ("finished", 1)):
        if o.get(k) != v:
            return "ovni.%s = %r, expected %r" % (k, o.get(k), v)
    req = o.get("require", {})
    for name, ver in s["require"].items():
        if req.get(name) != ver:
            return "require.%s = %r, expected %r" % (name, req.get(name), ver)
    lib = o.get("lib", {})
    if not isinstance(lib.get("version"), str) or not isinstance(lib.get("commit"), str):
        return "missing lib.version/commit"
    if s.get("cpus"):
        got = [(c.get("index"), c.get("phyid")) for c in o.get("loom_cpus", [])]
        if got != [tuple(c) for c in s["cpus"]]:
            return "loom_cpus %s != added %s" % (got, s["cpus"])
    return None


def run(case, ctx):
    lines = to_script(case)
    tr = case["trace"]
    d = ctx.newdir()
    try:
        env = rt.shim_env(ctx.shared["shim"], short=case["short"]) if case.get("short") else None
        if case.get("rerun"):
            prev = ["MODE turn"]
            for l in lines[1:]:
                f = l.split()
                if f[0] == "P" or (len(f) > 1 and f[1] in ("init", "require", "cpu")):
                    if l != "P fini":
                        prev.append(l)
            for i, s_ in enumerate(tr["streams"]):
                prev.append("T%d ev %s now %s" % (i, rt.hx("OHx"), T.P("iiQ", -1, -1, 0)))
                prev += ["T%d ev %s now" % (i, rt.hx("OB."))] * 3000
                prev += ["T%d ev %s now" % (i, rt.hx("OHe")), "T%d flush" % i, "T%d free" % i]
            prev.append("P fini")
            r0 = rt.run_script(ctx.shared["rtdrv"], prev, os.path.join(d, "prev"), tmpdir_mode=case.get("tmpdir", False),
                               tracedir=os.path.join(d, "trace"))
            if r0.res.kind != "ok":
                raise Violation("driver did not finish (earlier run): %s" % r0.res.brief())
        rr = rt.run_script(ctx.shared["rtdrv"], lines, d, env=env, tmpdir_mode=case.get("tmpdir", False))
        if rr.res.kind != "ok":
            raise Violation("driver did not finish: %s" % rr.res.brief())
        refused = [(who, ln) for who, lg in rr.logs.items() for ln, v in lg.items() if v[0] == "refused"]
        if refused:
            # the library refused a call of a conformant program with a diagnostic: allowed outcome
            return {"discard": True, "cls": ["refused-by-library"]}
        flushed = False
        for i, s in enumerate(tr["streams"]):
            sd = os.path.join(rr.tracedir, "loom.%s" % s["loom"], "proc.%d" % s["pid"], "thread.%d" % s["tid"])
            try:
                data = open(os.path.join(sd, "stream.obs"), "rb").read()
            except OSError as e:
                raise Violation("missing stream: %s" % e)
            evs, probs = obs.validate_stream(data)
            if probs:
                raise Violation("thread %d stream violates the trace specification: %s" % (s["tid"], "; ".join(probs[:3])))
            exp = rt.expected_stream(lines, rr, "T%d" % i)
            prob = rt.match_stream(exp, evs)
            if prob:
                raise Violation("thread %d: %s" % (s["tid"], prob))
            mp = check_meta(os.path.join(sd, "stream.json"), s, None)
            if mp:
                raise Violation("thread %d metadata: %s" % (s["tid"], mp))
            if any(e.mcv == "OF[" for e in evs[:-2]):
                flushed = True
        os.makedirs(os.path.join(rr.tracedir, "cfg"), exist_ok=True)
        r = tools.emu(ctx.b("asan"), rr.tracedir, ("-l",))
        if not r.ok:
            raise Violation("ovniemu -l rejects the trace of a conformant program: %s" % r.brief())
        return {"nt": flushed, "cls": ["threads:%d" % len(tr["streams"]), "auto-flush" if flushed else "no-auto-flush",
                                       "tmpdir" if case.get("tmpdir") else "direct"] + (["re-run"] if case.get("rerun") else []),
                "sample": {"script_head": lines[:25], "nlines": len(lines)}}
    finally:
        ctx.rmdir(d)


@st.composite
def concurrent(draw):
    """2-8 free-running threads of one process, each following the protocol on
    the virtual CPU with a multi-MiB stream, thread_free released by a barrier."""
    nth = draw(st.integers(2, 8))
    return {"n": nth, "sizes": [draw(st.integers(200000, MAX - 5000)) for _ in range(nth)],
            "bursts": [draw(st.integers(0, 40)) for _ in range(nth)], "tmpdir": draw(st.sampled_from([True, True, False]))}


def run_concurrent(case, ctx):
    n = case["n"]
    lines = ["MODE free", "P init 1 %s 5" % rt.hx("node.1")]
    for t in range(n):
        w = "T%d " % t
        lines.append(w + "init %d" % (300 + t))
        lines.append(w + "cpu %d %d" % (t, 10 + t))
        lines.append(w + "ev %s now %s" % (rt.hx("OHx"), T.P("iiQ", -1, -1, 0)))
        for _ in range(case["bursts"][t]):
            lines.append(w + "ev %s now" % rt.hx("OB."))
        lines.append(w + "jumbo %s now %d %d" % (rt.hx("OB."), case["sizes"][t], t))
        lines.append(w + "ev %s now" % rt.hx("OB."))
        lines.append(w + "ev %s now" % rt.hx("OHe"))
        lines.append(w + "flush")
        lines.append(w + "barrier")
        lines.append(w + "free")
    lines.append("P fini")
    d = ctx.newdir()
    try:
        rr = rt.run_script(ctx.shared["rtdrv"], lines, d, tmpdir_mode=case["tmpdir"], cpu_s=120, wall_s=300)
        if rr.res.kind != "ok":
            raise Violation("conformant concurrent program did not finish: %s" % rr.res.brief())
        for t in range(n):
            sd = os.path.join(rr.tracedir, "loom.node.1", "proc.5", "thread.%d" % (300 + t))
            try:
                data = open(os.path.join(sd, "stream.obs"), "rb").read()
            except OSError as e:
                raise Violation("thread %d left no stream: %s" % (t, e))
            evs, probs = obs.validate_stream(data)
            if probs:
                raise Violation("thread %d stream violates the trace specification: %s" % (t, "; ".join(probs[:3])))
            prob = rt.match_stream(rt.expected_stream(lines, rr, "T%d" % t), evs)
            if prob:
                raise Violation("thread %d: %s" % (t, prob))
            mp = check_meta(os.path.join(sd, "stream.json"), {"tid": 300 + t, "pid": 5, "loom": "node.1", "app": 1,
                                                               "require": {"ovni": "1.1.0"}, "cpus": [[t, 10 + t]]}, None)
            if mp:
                raise Violation("thread %d metadata: %s" % (t, mp))
        os.makedirs(os.path.join(rr.tracedir, "cfg"), exist_ok=True)
        r = tools.emu(ctx.b("asan"), rr.tracedir, ("-l",))
        if not r.ok:
            raise Violation("ovniemu -l rejects the trace of a conformant concurrent program: %s" % r.brief())
        return {"nt": True, "cls": ["concurrent:%d" % n, "tmpdir" if case["tmpdir"] else "direct"],
                "sample": {"threads": n, "tmpdir": case["tmpdir"], "head": lines[:10]}}
    finally:
        ctx.rmdir(d)


def enum_window(ctx):
    """Exhaustive sweep: jumbo total size MAX-40..MAX-1 x buffer {empty, one event}."""
    base = {"streams": [{"loom": "node.1", "pid": 5, "tid": 77, "app": 1, "cpus": [[0, 0]],
                         "require": {"ovni": "1.1.0"}, "events": [T.OHx(1, 0), T.plain("OB.", 2), T.plain("OHe", 3)]}]}
    for delta in range(1, 41):
        for pre in (0, 1):
            yield {"trace": base, "fill": [[0, 1, "exact-window", delta, pre]]}


def enum_many(ctx):
    yield {"procs": 1, "threads": 1100, "cpus": 4}
    yield {"procs": 3, "threads": 400, "cpus": 2}
    if ctx.tier != "quick":
        yield {"procs": 2, "threads": 1500, "cpus": 7}
        yield {"procs": 8, "threads": 140, "cpus": 1}


def run_many(case, ctx):
    """More streams than the default open-files limit of a process (1024): a program that
    follows the protocol with many short-lived threads; the tools run under that limit."""
    b = ctx.b("asan")
    d = ctx.newdir()
    try:
        tdir = os.path.join(d, "ovni")
        r = tools.run([ctx.shared["manythreads"], str(case["procs"]), str(case["threads"]), str(case["cpus"])],
                      cwd=d, env={"OVNI_TRACEDIR": tdir}, cpu_s=120, wall_s=600)
        if r.kind != "ok":
            raise Violation("conformant program with %d x %d threads failed: %s" % (case["procs"], case["threads"], r.brief()))
        n = 0
        for root, dn, fn in os.walk(tdir):
            if "stream.obs" not in fn:
                continue
            n += 1
            try:
                evs = obs.decode_stream(open(os.path.join(root, "stream.obs"), "rb").read())
            except obs.DecodeError as ex:
                raise Violation("%s violates the trace specification: %s" % (root, ex))
            user = [e.mcv for e in evs if e.mcv not in ("OF[", "OF]")]
            if user != ["OHx", "OB.", "OHe"]:
                raise Violation("%s holds %s, emitted OHx OB. OHe" % (root, user))
            meta = json.load(open(os.path.join(root, "stream.json")))
            if meta.get("ovni", {}).get("finished") != 1:
                raise Violation("%s: stream.json not marked finished" % root)
        if n != case["procs"] * case["threads"]:
            raise Violation("%d streams on disk, %d threads ran" % (n, case["procs"] * case["threads"]))
        for tool, flags in (("ovniemu", ["-l"]), ("ovnidump", []), ("ovnisort", [])):
            r = tools.run([b.tool(tool)] + flags + [tdir], cpu_s=120, wall_s=600, nofile=1024)
            if r.kind != "ok":
                raise Violation("%s rejects the %d-stream trace of a conformant program under the default "
                                "open-files limit (1024): %s" % (tool, n, r.brief()))
    finally:
        ctx.rmdir(d)
    return {"nt": True, "cls": ["many-streams"], "key": json.dumps(case)}


def parts(tier):
    return [Part("jumbo-window-sweep", run, enum=enum_window),
            Part("many-threads", run_many, enum=enum_many),
            Part("programs", run, strategy=lambda ctx: programs(), budget={"quick": 2500, "thorough": 40000}),
            Part("concurrent-programs", run_concurrent, strategy=lambda ctx: concurrent(), budget={"quick": 120, "thorough": 2500},
                 replay_any=20)]
